#!/bin/sh
# Offline setup: hypothesis into /venv (already present on this image; idempotent), atheris into /verif/.deps.
set -e
cd "$(dirname "$0")"
/venv/bin/python -c "import hypothesis" 2>/dev/null || \
  /venv/bin/pip install --no-index --find-links /opt/veriftools/wheels hypothesis
if ! PYTHONPATH=.deps /venv/bin/python -c "import atheris" 2>/dev/null; then
  /venv/bin/pip install --no-index --find-links /opt/veriftools/wheels --target .deps atheris >/dev/null 2>&1 || \
    echo "setup: atheris unavailable; coverage-guided parts will be skipped (reported in evidence)"
fi
/venv/bin/python -c "import sys; sys.path.insert(0,'/repo'); import pycomm3, hypothesis; print('setup ok', hypothesis.__version__)"
