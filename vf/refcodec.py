"""Reference CIP codec - written from the CIP specification (Vol 1, Appendix C) and the Logix Data
Access manual, using only `struct`.  Imports nothing from pycomm3.

Types are plain-data descriptors (dicts with key "k"):

  {"k": "BOOL"|"SINT"|...}                      elementary fixed-width
  {"k": "STRING"|"SHORT_STRING"|"LOGIX_STRING"|"STRING2"}
  {"k": "STRINGN", "cs": 1|2|4}                 n-byte characters
  {"k": "STRINGI"}                              international string
  {"k": "DATE_AND_TIME"}                        (time-of-day ms u32, date u16)
  {"k": "BYTE"|"WORD"|"DWORD"|"LWORD"|"ENGUNIT"} bit strings, list of bools, LSB first
  {"k": "nbytes", "n": k}                       k raw bytes (k = -1: rest of buffer)
  {"k": "array", "len": n | None | {"lt": "USINT"}, "el": T}
  {"k": "struct", "members": [[name|None, T], ...]}
  {"k": "ip"} {"k": "revision"} {"k": "modid"} {"k": "listid"}
  {"k": "fixedstr", "size": n}                  Logix fixed-capacity string: u32 LEN + n chars, NUL padded
  {"k": "structtag", "size": n, "members": [[name, T, offset]...], "bits": {name: [offset, bit]}, "private": [...]}
"""
import struct

INTS = {
    "SINT": ("<b", 1), "INT": ("<h", 2), "DINT": ("<i", 4), "LINT": ("<q", 8),
    "USINT": ("<B", 1), "UINT": ("<H", 2), "UDINT": ("<I", 4), "ULINT": ("<Q", 8),
    # derived elementary types share the representation of their base (CIP Vol 1 Table C-6.1)
    "STIME": ("<i", 4), "DATE": ("<H", 2), "TIME_OF_DAY": ("<I", 4),
    "FTIME": ("<i", 4), "LTIME": ("<q", 8), "ITIME": ("<h", 2), "TIME": ("<i", 4),
}
FLOATS = {"REAL": ("<f", 4), "LREAL": ("<d", 8)}
BITS = {"BYTE": 1, "WORD": 2, "DWORD": 4, "LWORD": 8, "ENGUNIT": 2}
STR_PREFIX = {"STRING": 2, "SHORT_STRING": 1, "LOGIX_STRING": 4, "STRING2": 2}
STRN_ENC = {1: "latin-1", 2: "utf-16-le", 4: "utf-32-le"}   # n bytes per character: one byte is one character (as in STRING / SHORT_STRING)

# CIP elementary data type codes (Vol 1, Table C-6.1) with their widths in bytes (None = variable)
TYPE_CODES = {
    0xC1: ("BOOL", 1), 0xC2: ("SINT", 1), 0xC3: ("INT", 2), 0xC4: ("DINT", 4), 0xC5: ("LINT", 8),
    0xC6: ("USINT", 1), 0xC7: ("UINT", 2), 0xC8: ("UDINT", 4), 0xC9: ("ULINT", 8),
    0xCA: ("REAL", 4), 0xCB: ("LREAL", 8), 0xCC: ("STIME", 4), 0xCD: ("DATE", 2),
    0xCE: ("TIME_OF_DAY", 4), 0xCF: ("DATE_AND_TIME", 8), 0xD0: ("STRING", None),
    0xD1: ("BYTE", 1), 0xD2: ("WORD", 2), 0xD3: ("DWORD", 4), 0xD4: ("LWORD", 8),
    0xD5: ("STRING2", None), 0xD6: ("FTIME", 4), 0xD7: ("LTIME", 8), 0xD8: ("ITIME", 2),
    0xD9: ("STRINGN", None), 0xDA: ("SHORT_STRING", None), 0xDB: ("TIME", 4),
    0xDD: ("ENGUNIT", 2), 0xDE: ("STRINGI", None),
}
STRINGI_TYPES = {0xD0: "STRING", 0xD5: "STRING2", 0xD9: "STRINGN", 0xDA: "SHORT_STRING"}
STRINGI_CODES = {v: k for k, v in STRINGI_TYPES.items()}

INT_RANGE = {}
for _n, (_f, _s) in INTS.items():
    if _f[1].islower():
        INT_RANGE[_n] = (-(1 << (8 * _s - 1)), (1 << (8 * _s - 1)) - 1)
    else:
        INT_RANGE[_n] = (0, (1 << (8 * _s)) - 1)


class RefShort(Exception):
    """Buffer ended.  at_start=True: no byte of the primitive being read was present."""

    def __init__(self, at_start, what=""):
        super().__init__(what)
        self.at_start = at_start


class RefBad(Exception):
    """Bytes are malformed for the type (not a matter of length)."""


class RefDomain(Exception):
    """Value outside the type's domain (encode side)."""


def T(k, **kw):
    d = {"k": k}
    d.update(kw)
    return d


# ---------------------------------------------------------------------------------------------
# encode
# ---------------------------------------------------------------------------------------------
def enc(t, v):
    k = t["k"]
    if k == "BOOL":
        return b"\xff" if v else b"\x00"
    if k in INTS:
        fmt, size = INTS[k]
        if isinstance(v, bool) or not isinstance(v, int):
            if isinstance(v, bool):
                v = int(v)
            else:
                raise RefDomain(f"{v!r} is not an integer")
        lo, hi = INT_RANGE[k]
        if not lo <= v <= hi:
            raise RefDomain(f"{v} out of range for {k}")
        return struct.pack(fmt, v)
    if k in FLOATS:
        if not isinstance(v, (int, float)):
            raise RefDomain(f"{v!r} is not a number")
        try:
            return struct.pack(FLOATS[k][0], v)
        except (OverflowError, struct.error) as e:
            raise RefDomain(str(e))
    if k in BITS:
        n = BITS[k] * 8
        if len(v) != n:
            raise RefDomain(f"bit string needs {n} bools")
        x = 0
        for i, b in enumerate(v):
            if b:
                x |= 1 << i
        return x.to_bytes(BITS[k], "little")
    if k in STR_PREFIX:
        if not isinstance(v, str):
            raise RefDomain("not a str")
        w = STR_PREFIX[k]
        if k == "STRING2":
            body = _encode_chars(v, "utf-16-le", 2)
        else:
            body = _encode_chars(v, "latin-1", 1)
        if len(v) >= 1 << (8 * w):
            raise RefDomain("string longer than its length prefix allows")
        return len(v).to_bytes(w, "little") + body
    if k == "STRINGN":
        cs = t.get("cs", 1)
        body = _encode_chars(v, STRN_ENC[cs], cs)
        if len(v) > 0xFFFF:
            raise RefDomain("too long")
        return struct.pack("<HH", cs, len(v)) + body
    if k == "STRINGI":
        out = bytes([len(v)])
        for (s, st, lang, cset) in v:
            if len(lang) != 3:
                raise RefDomain("language is 3 ASCII letters")
            out += lang.encode("ascii") + bytes([STRINGI_CODES[st]]) + struct.pack("<H", cset)
            out += enc(T(st) if st != "STRINGN" else T("STRINGN", cs=1), s)
        return out
    if k == "DATE_AND_TIME":
        time, date = v
        return enc(T("UDINT"), time) + enc(T("UINT"), date)
    if k == "nbytes":
        n = t["n"]
        if n != -1 and len(v) < n:
            raise RefDomain("too few bytes")
        return bytes(v) if n == -1 else bytes(v[:n])
    if k == "array":
        ln = t["len"]
        el = t["el"]
        if isinstance(ln, int):
            if len(v) < ln:
                raise RefDomain("too few elements")
            v = v[: ln * (BITS[el["k"]] * 8 if el["k"] in BITS else 1)]
        if el["k"] in BITS:
            n = BITS[el["k"]] * 8
            if len(v) % n:
                raise RefDomain("bit array length not a multiple of the host width")
            return b"".join(enc(el, v[i:i + n]) for i in range(0, len(v), n))
        return b"".join(enc(el, x) for x in v)
    if k == "struct":
        ms = t["members"]
        if isinstance(v, dict):
            return b"".join(enc(mt, v[name]) for name, mt in ms)
        if len(v) < len(ms):
            raise RefDomain("too few members")
        return b"".join(enc(mt, x) for (name, mt), x in zip(ms, v))
    if k == "ip":
        parts = v.split(".")
        if len(parts) != 4 or not all(p.isdigit() and p == str(int(p)) and int(p) < 256 for p in parts):
            raise RefDomain("not an IPv4 dotted quad")
        return bytes(int(p) for p in parts)
    if k == "revision":
        return enc(STRUCTS["revision"], v)
    if k == "fixedstr":
        size = t["size"]
        chars = v[:size if t.get("cap") is None else t["cap"]]   # longer values are cut to the capacity, the data area is padded to size
        body = _encode_chars(chars, "latin-1", 1)
        return struct.pack("<I", len(chars)) + body + b"\x00" * (size - len(chars))
    if k == "structtag":
        buf = bytearray(t["size"])
        private = set(t.get("private", ()))
        for name, mt, off in t["members"]:
            if name in private:
                continue
            e = enc(mt, v[name])
            buf[off:off + len(e)] = e
        for name, (off, bit) in t["bits"].items():
            if name in private:
                continue
            if v[name]:
                buf[off] |= 1 << bit
            else:
                buf[off] &= ~(1 << bit) & 0xFF
        return bytes(buf)
    raise KeyError(k)


def _encode_chars(s, encoding, width):
    if not isinstance(s, str):
        raise RefDomain("not a str")
    try:
        b = s.encode(encoding)
    except UnicodeEncodeError as e:
        raise RefDomain(str(e))
    if len(b) != width * len(s):
        raise RefDomain("character outside the fixed-width repertoire")
    return b


# ---------------------------------------------------------------------------------------------
# decode  (returns (value, new position)); trace = optional list collecting primitive spans
# ---------------------------------------------------------------------------------------------
def _take(buf, pos, n, what=""):
    if n == 0:
        return b"", pos
    if pos >= len(buf):
        raise RefShort(True, what)
    if pos + n > len(buf):
        raise RefShort(False, what)
    return buf[pos:pos + n], pos + n


def dec(t, buf, pos=0):
    k = t["k"]
    if k == "BOOL":
        b, pos = _take(buf, pos, 1, k)
        return b != b"\x00", pos
    if k in INTS:
        fmt, size = INTS[k]
        b, pos = _take(buf, pos, size, k)
        return struct.unpack(fmt, b)[0], pos
    if k in FLOATS:
        fmt, size = FLOATS[k]
        b, pos = _take(buf, pos, size, k)
        return struct.unpack(fmt, b)[0], pos
    if k in BITS:
        b, pos = _take(buf, pos, BITS[k], k)
        x = int.from_bytes(b, "little")
        return [bool(x >> i & 1) for i in range(BITS[k] * 8)], pos
    if k in STR_PREFIX:
        w = STR_PREFIX[k]
        b, pos = _take(buf, pos, w, k + ".len")
        n = int.from_bytes(b, "little")
        cw, encoding = (2, "utf-16-le") if k == "STRING2" else (1, "latin-1")
        b, pos = _take(buf, pos, n * cw, k + ".chars")
        try:
            return b.decode(encoding), pos
        except UnicodeDecodeError as e:
            raise RefBad(str(e))
    if k == "STRINGN":
        b, pos = _take(buf, pos, 2, "STRINGN.cs")
        cs = int.from_bytes(b, "little")
        b, pos = _take(buf, pos, 2, "STRINGN.count")
        n = int.from_bytes(b, "little")
        if cs not in STRN_ENC:
            raise RefBad(f"unsupported character size {cs}")
        b, pos = _take(buf, pos, n * cs, "STRINGN.chars")
        try:
            return b.decode(STRN_ENC[cs]), pos
        except UnicodeDecodeError as e:
            raise RefBad(str(e))
    if k == "STRINGI":
        b, pos = _take(buf, pos, 1, "STRINGI.count")
        strings, langs, csets = [], [], []
        for _ in range(b[0]):
            lb, pos = _take(buf, pos, 3, "STRINGI.lang")
            tb, pos = _take(buf, pos, 1, "STRINGI.type")
            cb, pos = _take(buf, pos, 2, "STRINGI.charset")
            if tb[0] not in STRINGI_TYPES:
                raise RefBad("unknown embedded string type")
            st = STRINGI_TYPES[tb[0]]
            s, pos = dec(T(st), buf, pos)
            try:
                langs.append(lb.decode("latin-1"))
            except UnicodeDecodeError as e:
                raise RefBad(str(e))
            csets.append(int.from_bytes(cb, "little"))
            strings.append(s)
        return (strings, langs, csets), pos
    if k == "DATE_AND_TIME":
        a, pos = dec(T("UDINT"), buf, pos)
        b, pos = dec(T("UINT"), buf, pos)
        return (a, b), pos
    if k == "nbytes":
        n = t["n"]
        if n == -1:
            if pos >= len(buf):
                raise RefShort(True, "nbytes(-1)")
            return bytes(buf[pos:]), len(buf)
        b, pos = _take(buf, pos, n, "nbytes")
        return bytes(b), pos
    if k == "array":
        ln = t["len"]
        el = t["el"]
        out = []
        if ln is None:
            while pos < len(buf):
                x, pos = dec(el, buf, pos)
                out.append(x)
        else:
            if isinstance(ln, dict):
                n, pos = dec(T(ln["lt"]), buf, pos)
                if n < 0:       # a signed count type: a negative number of elements is malformed, not an empty array
                    raise RefShort(None, "array.count.negative")
            else:
                n = ln
            for _ in range(n):
                x, pos = dec(el, buf, pos)
                out.append(x)
        if el["k"] in BITS:
            out = [b for chunk in out for b in chunk]
        return out, pos
    if k == "struct":
        vals = {}
        for name, mt in t["members"]:
            x, pos = dec(mt, buf, pos)
            if name:
                vals[name] = x
        return vals, pos
    if k == "ip":
        b, pos = _take(buf, pos, 4, "ip")
        return ".".join(str(x) for x in b), pos
    if k == "revision":
        return dec(STRUCTS["revision"], buf, pos)
    if k == "fixedstr":
        b, pos = _take(buf, pos, 4, "fixedstr.len")
        n = int.from_bytes(b, "little")
        b, pos = _take(buf, pos, t["size"], "fixedstr.data")
        return b[:n].decode("latin-1"), pos
    if k == "structtag":
        if pos >= len(buf):
            raise RefShort(True, "structtag")
        raw = buf[pos:pos + t["size"]]
        short = len(raw) < t["size"]
        pos += len(raw)
        vals = {}
        private = set(t.get("private", ()))
        for name, mt, off in t["members"]:
            x, _ = dec(mt, raw, off)
            if name not in private:
                vals[name] = x
        for name, (off, bit) in t["bits"].items():
            if off >= len(raw):
                raise RefShort(None, "structtag.bit")
            if name not in private:
                vals[name] = bool(raw[off] >> bit & 1)
        if short:  # every member was present; only trailing padding is missing
            raise RefShort(None, "structtag.padding")
        return vals, pos
    raise KeyError(k)


STRUCTS = {
    "revision": T("struct", members=[["major", T("USINT")], ["minor", T("USINT")]]),
}
IDENTITY_MEMBERS = [
    ["vendor", T("UINT")], ["product_type", T("UINT")], ["product_code", T("UINT")],
    ["revision", T("revision")], ["status", T("nbytes", n=2)], ["serial", T("UDINT")],
    ["product_name", T("SHORT_STRING")],
]


def encode_identity(idn):
    """Identity object (class 1, Get_Attributes_All) from numeric fields."""
    name = idn["product_name"].encode("latin-1")
    return struct.pack("<HHHBB", idn["vendor"], idn["product_type"], idn["product_code"],
                       idn["major"], idn["minor"]) + bytes(idn["status"]) + struct.pack("<I", idn["serial"]) + \
        bytes([len(name)]) + name


def encode_list_identity_item(idn):
    """CIP Identity item body of a ListIdentity reply (EtherNet/IP spec, Vol 2, 2-4.2)."""
    ip = bytes(int(p) for p in idn["ip"].split("."))
    sock = struct.pack(">hH", idn.get("sin_family", 2), idn.get("sin_port", 44818)) + ip + bytes(8)
    return struct.pack("<H", idn.get("encap_version", 1)) + sock + encode_identity(idn) + bytes([idn["state"]])


def ref_equal(a, b):
    """Value equality with NaN == NaN, floats compared as values, recursive."""
    if isinstance(a, float) and isinstance(b, float):
        return (a != a and b != b) or a == b
    if isinstance(a, (list, tuple)) and isinstance(b, (list, tuple)):
        return len(a) == len(b) and all(ref_equal(x, y) for x, y in zip(a, b))
    if isinstance(a, dict) and isinstance(b, dict):
        return a.keys() == b.keys() and all(ref_equal(a[k], b[k]) for k in a)
    if isinstance(a, bool) != isinstance(b, bool):
        return False
    return a == b


def f32(x):
    """Round a Python float to binary32 (what a REAL can hold)."""
    try:
        return struct.unpack("<f", struct.pack("<f", x))[0]
    except OverflowError:
        return x


def scramble(v):
    """mutate a decoded value in place as a caller might (flip bools, change numbers, empty containers): a later decode
    must not be affected by what callers did to an earlier result"""
    if isinstance(v, list):
        for i, x in enumerate(v):
            if isinstance(x, (list, dict)):
                scramble(x)
            elif isinstance(x, bool):
                v[i] = not x
            elif isinstance(x, (int, float)):
                v[i] = 77
            else:
                v[i] = None
        v.append("scrambled")
    elif isinstance(v, dict):
        for k in list(v):
            if isinstance(v[k], (list, dict)):
                scramble(v[k])
            else:
                v[k] = "scrambled"
        v["__scrambled__"] = True
