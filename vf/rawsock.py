"""Raw-socket level fakes: a shim that stands where `pycomm3.socket_` imported the `socket` module, so that
the real `Socket` send/receive loops are inside the tested stack (used by C10 and C12)."""
import struct


class StepBudgetExceeded(BaseException):
    """more send/recv calls than any terminating implementation needs"""


class FakeRaw:
    def __init__(self, shim):
        self.shim = shim
        # scripted mode
        self.recv_script = list(shim.recv_script or [])
        self.recv_pos = 0
        self.send_script = list(shim.send_script or [])
        self.send_calls = 0
        self.accepted = []
        # target mode
        self.inbuf = b""
        self.outbuf = b""
        self.dead = False
        self.closed = False
        self.timeout = None

    # -- plumbing the library calls ------------------------------------------------------------
    def settimeout(self, t):
        self.timeout = t

    def setsockopt(self, *a):
        pass

    def connect(self, addr):
        self.shim.connects.append(addr)
        if self.shim.connect_fails:
            raise ConnectionRefusedError("connection refused")

    def close(self):
        self.closed = True
        if self.shim.target is not None and not self.dead:
            self.shim.target.tcp_closed()

    def _tick(self):
        self.shim.budget -= 1
        if self.shim.budget < 0:
            raise StepBudgetExceeded()

    def _fault_now(self, op):
        f = self.shim.fault
        self.shim.ops += 1
        self.shim.op_kinds.append(op[0])
        if f is None or self.dead:
            return None
        idx = self.shim.ops - 1
        for one in (f if isinstance(f, list) else [f]):   # fault = {"at": k, "send": kind, "recv": kind} or a list of them
            if idx == one["at"]:
                return one[op]
        return None

    def _die(self):
        self.dead = True
        if self.shim.target is not None:
            self.shim.target.peer_lost()

    # -- recv ------------------------------------------------------------------------------------
    def recv(self, n):
        self._tick()
        if self.closed:
            raise OSError("recv on closed socket")
        if self.shim.target is None:
            return self._recv_scripted(n)
        if self.dead:
            if self.shim.dead_mode == "eof":
                return b""
            raise ConnectionResetError("connection reset by peer")
        kind = self._fault_now("recv")
        if kind is not None:
            self.shim.fault_fired = True
            self.shim.faults_fired += 1
            self._die()
            if kind == "close":
                self.shim.dead_mode = "eof"
                return b""
            if kind == "timeout":
                raise TimeoutError("timed out")
            raise ConnectionResetError("connection reset by peer")
        if not self.outbuf:
            raise TimeoutError("timed out")   # nothing will ever arrive: the peer does not answer
        size = self.shim.next_chunk()
        out = self.outbuf[:min(n, size)]
        self.outbuf = self.outbuf[len(out):]
        return out

    def _recv_scripted(self, n):
        if self.recv_pos >= len(self.recv_script):
            raise TimeoutError("timed out")
        kind, val = self.recv_script[self.recv_pos]
        if kind == "fault":
            if val == "close":
                return b""
            if val == "timeout":
                raise TimeoutError("timed out")
            raise ConnectionResetError("connection reset by peer")
        if len(val) > n:
            self.recv_script[self.recv_pos] = ("data", val[n:])
            return val[:n]
        self.recv_pos += 1
        return val

    # -- send ------------------------------------------------------------------------------------
    def send(self, data):
        self._tick()
        if self.closed:
            raise OSError("send on closed socket")
        if self.shim.target is None:
            return self._send_scripted(data)
        if self.dead:
            if self.shim.dead_mode == "zero":
                return 0          # a dead stream that keeps accepting nothing: a send loop must give up
            raise BrokenPipeError("broken pipe")
        kind = self._fault_now("send")
        if kind is not None:
            self.shim.fault_fired = True
            self.shim.faults_fired += 1
            self._die()
            if kind == "zero":
                self.shim.dead_mode = "zero"
                return 0
            if kind == "timeout":
                raise TimeoutError("timed out")
            raise BrokenPipeError("broken pipe")
        size = self.shim.next_chunk()
        part = bytes(data[:max(1, min(len(data), size))])
        self.inbuf += part
        self.shim.sent_bytes += len(part)
        while len(self.inbuf) >= 24:
            ln = struct.unpack_from("<H", self.inbuf, 2)[0]
            if len(self.inbuf) < 24 + ln:
                break
            frame, self.inbuf = self.inbuf[:24 + ln], self.inbuf[24 + ln:]
            reply = self.shim.target.handle(frame)
            if reply is not None:
                self.outbuf += reply
        return len(part)

    def _send_scripted(self, data):
        idx = self.send_calls
        self.send_calls += 1
        f = self.shim.send_fault
        if f is not None and idx == f[0]:
            if f[1] == "zero":
                return 0
            if f[1] == "timeout":
                raise TimeoutError("timed out")
            if f[1] == "reset":
                raise ConnectionResetError("reset")
            raise BrokenPipeError("broken pipe")
        cnt = self.send_script[idx] if idx < len(self.send_script) else len(data)
        c = max(1, min(cnt, len(data)))
        self.accepted.append(bytes(data[:c]))
        return c


class SocketShim:
    AF_INET, SOCK_STREAM, SOCK_DGRAM, SOL_SOCKET, SO_KEEPALIVE, SO_BROADCAST = 2, 1, 2, 1, 9, 6
    error = OSError
    timeout = TimeoutError

    def __init__(self, recv_script=None, send_script=None, send_fault=None, budget=10_000, target=None, chunks=None, fault=None,
                 connect_fails=False):
        self.recv_script, self.send_script, self.send_fault = recv_script, send_script, send_fault
        self.budget = self.budget0 = budget
        self.target = target
        self.chunks = list(chunks or [1 << 20])
        self.chunk_i = 0
        self.fault = fault
        self.fault_fired = False
        self.faults_fired = 0
        self.ops = 0
        self.op_kinds = []
        self.raw = None
        self.raws = []
        self.connects = []
        self.connect_fails = connect_fails
        self.dead_mode = "reset"
        self.sent_bytes = 0

    def next_chunk(self):
        c = self.chunks[self.chunk_i % len(self.chunks)]
        self.chunk_i += 1
        return c

    def socket(self, *a):
        self.raw = FakeRaw(self)
        self.raws.append(self.raw)
        return self.raw

    def gethostbyname(self, host):
        return "127.0.0.1"


_real = {}


def install_shim(shim):
    import pycomm3.socket_ as sk
    if "socket" not in _real:
        _real["socket"] = sk.socket
    sk.socket = shim


def uninstall_shim():
    import pycomm3.socket_ as sk
    if "socket" in _real:
        sk.socket = _real["socket"]
