"""Reference SLC/MicroLogix target: PCCC 'Execute PCCC' object (class 0x67) on top of the reference
encapsulation / connection layers.  Imports nothing from pycomm3."""
import struct

from .refplc import RefTarget

# PCCC file type codes (DF1 / PCCC reference, 1770-6.5.16) and element sizes in bytes
FILE_TYPES = {"O": 0x82, "I": 0x83, "S": 0x84, "B": 0x85, "T": 0x86, "C": 0x87, "R": 0x88, "N": 0x89, "F": 0x8A, "ST": 0x8D, "A": 0x8E, "L": 0x91}
ELEM_SIZE = {0x82: 2, 0x83: 2, 0x84: 2, 0x85: 2, 0x86: 6, 0x87: 6, 0x88: 6, 0x89: 2, 0x8A: 4, 0x8D: 84, 0x8E: 2, 0x91: 4}
IO_SLOT_STRIDE = 512   # bytes reserved per slot in the I/O image of this model (256 words)


class RefSLC(RefTarget):
    def __init__(self, tables=None, cfg=None):
        super().__init__(cfg)
        self.tables = {k: bytearray(v) for k, v in (tables or {}).items()}   # (type code, file no) -> bytes
        self.commands = []

    def table(self, tcode, fno):
        key = (tcode, fno)
        if key not in self.tables:
            return None
        return self.tables[key]

    def offset(self, tcode, element, sub):
        if tcode in (0x82, 0x83):
            return element * IO_SLOT_STRIDE + sub * 2
        return element * ELEM_SIZE[tcode] + sub * 2

    def route_object(self, service, segs, data, transport, conn, entry):
        if service == 0x4B and len(segs) == 2 and segs[0][:2] == ("class", 0x67) and segs[1][:2] == ("instance", 1):
            return self.pccc(data, transport)
        return super().route_object(service, segs, data, transport, conn, entry)

    def pccc(self, data, transport):
        if transport != "connected":
            self.audit("C18", "pccc.transport", transport)
        if len(data) < 1 or data[0] != 7 or len(data) < 7 + 5:
            self.audit("C18", "pccc.requestor-id", data[:8].hex())
            return 0x13, [], b""
        rid = data[:7]
        cmd, sts, tns, fnc = data[7], data[8], struct.unpack_from("<H", data, 9)[0], data[11]
        body = data[12:]
        rec = {"cmd": cmd, "fnc": fnc, "tns": tns, "body": bytes(body)}
        self.commands.append(rec)
        if cmd != 0x0F or sts != 0:
            return 0, [], rid + bytes([0x4F, 0x10]) + struct.pack("<H", tns)
        for rule in self.forced:
            if rule.get("when", {}).get("pccc"):
                return 0, [], rid + bytes([0x4F, rule["status"]]) + struct.pack("<H", tns)
        def field(pos):
            """an address field is one byte for 0..254; the byte 0xFF announces a 16-bit value in the next two bytes (DF1 manual)"""
            if pos >= len(body):
                raise IndexError
            if body[pos] != 0xFF:
                return body[pos], pos + 1
            if pos + 3 > len(body):
                raise IndexError
            return body[pos + 1] | (body[pos + 2] << 8), pos + 3

        def address():
            size = body[0]
            fno, pos = field(1)
            tcode = body[pos]
            element, pos = field(pos + 1)
            sub, pos = field(pos)
            return size, fno, tcode, element, sub, pos

        if fnc == 0xA2:
            try:
                size, fno, tcode, element, sub, pos = address()
                if pos != len(body):
                    raise IndexError
            except IndexError:
                rec["error"] = "length"
                return 0, [], rid + bytes([0x4F, 0x10]) + struct.pack("<H", tns)
            rec.update(size=size, file_no=fno, file_type=tcode, element=element, sub=sub, kind="read")
            t = self.table(tcode, fno)
            if t is None or tcode not in ELEM_SIZE:
                return 0, [], rid + bytes([0x4F, 0x50]) + struct.pack("<H", tns)
            off = self.offset(tcode, element, sub)
            if off + size > len(t):
                return 0, [], rid + bytes([0x4F, 0x50]) + struct.pack("<H", tns)
            rec["executed"] = True
            return 0, [], rid + bytes([0x4F, 0x00]) + struct.pack("<H", tns) + bytes(t[off:off + size])
        if fnc == 0xAB:
            try:
                size, fno, tcode, element, sub, pos = address()
                if pos + 2 > len(body):
                    raise IndexError
            except IndexError:
                rec["error"] = "length"
                return 0, [], rid + bytes([0x4F, 0x10]) + struct.pack("<H", tns)
            mask = struct.unpack_from("<H", body, pos)[0]
            payload = body[pos + 2:]
            rec.update(size=size, file_no=fno, file_type=tcode, element=element, sub=sub, mask=mask, data=bytes(payload), kind="write")
            t = self.table(tcode, fno)
            if t is None or tcode not in ELEM_SIZE:
                return 0, [], rid + bytes([0x4F, 0x50]) + struct.pack("<H", tns)
            if len(payload) != size or size % 2:
                rec["error"] = f"size field {size}, {len(payload)} data bytes"
                return 0, [], rid + bytes([0x4F, 0x10]) + struct.pack("<H", tns)
            off = self.offset(tcode, element, sub)
            if off + size > len(t):
                return 0, [], rid + bytes([0x4F, 0x50]) + struct.pack("<H", tns)
            for i in range(0, size, 2):
                old = struct.unpack_from("<H", t, off + i)[0]
                new = struct.unpack_from("<H", payload, i)[0]
                struct.pack_into("<H", t, off + i, (old & ~mask & 0xFFFF) | (new & mask))
            rec["executed"] = True
            return 0, [], rid + bytes([0x4F, 0x00]) + struct.pack("<H", tns)
        return 0, [], rid + bytes([0x4F, 0x10]) + struct.pack("<H", tns)
