"""Runner: seeding, sharding, evidence, violation bucketing, replay files, known findings.

A property module (vf/props/cXX.py) provides:

    PID, LEVEL, RULE, ASSUMPTIONS, TECHNIQUE
    def plan(tier) -> list[dict]        # list of work units ("jobs"); each is JSON-able and names a part
    def run_job(ctx, job) -> None       # executes one job, recording into ctx
    def replay(ctx, kind, case) -> list[Disc]   # re-runs the oracle on one stored case, no Hypothesis

Jobs are distributed over a fork pool (16 workers).  Every job gets a seed derived from
VERIF_SEED, the property id and the job index, so a run is a pure function of tree + VERIF_SEED.
"""
import hashlib
import json
import multiprocessing as mp
import os
import sys
import time
import traceback
from collections import Counter

VERIF = os.path.dirname(os.path.dirname(os.path.abspath(__file__)))
REPO = os.environ.get("VERIF_REPO", "/repo")
NWORKERS = int(os.environ.get("VERIF_WORKERS", "16"))
OUT = os.environ.get("VERIF_OUT") or VERIF  # where evidence and new replay files are written


def setup_imports():
    """Import pycomm3 from the working tree of /repo (never from a stale copy)."""
    if REPO not in sys.path[:1]:
        sys.path.insert(0, REPO)
    deps = os.path.join(VERIF, ".deps")
    if os.path.isdir(deps) and deps not in sys.path:
        sys.path.append(deps)
    import logging

    logging.disable(logging.CRITICAL)
    cov = None
    if os.environ.get("VERIF_COV") and "pycomm3" not in sys.modules:   # tooling only: the lines executed by the import itself
        import coverage
        cov = coverage.Coverage(data_file=os.path.join(os.environ["VERIF_COV"], "cov.import"), data_suffix=str(os.getpid()),
                                include=[os.path.join(REPO, "pycomm3", "*")], branch=True)
        cov.start()
    import pycomm3
    import pycomm3.packets, pycomm3.slc_driver, pycomm3.logix_driver  # noqa
    if cov is not None:
        cov.stop()
        cov.save()

    here = os.path.realpath(os.path.dirname(pycomm3.__file__))
    want = os.path.realpath(os.path.join(REPO, "pycomm3"))
    if here != want:
        raise HarnessError(f"pycomm3 imported from {here}, expected {want}")
    return pycomm3


class HarnessError(Exception):
    """Defect of the verification machinery itself (exit code 2, never a VIOLATION)."""


class Disc:
    """One discrepancy between the code under test and the oracle."""

    __slots__ = ("bucket", "detail")

    def __init__(self, bucket, detail=""):
        self.bucket = str(bucket)
        self.detail = str(detail)[:2000]

    def __repr__(self):
        return f"Disc({self.bucket!r}, {self.detail!r})"


def h64(obj) -> int:
    if not isinstance(obj, (bytes, bytearray)):
        obj = json.dumps(obj, sort_keys=True, default=_json_default).encode()
    return int.from_bytes(hashlib.blake2b(obj, digest_size=8).digest(), "big")


def _json_default(o):
    if isinstance(o, (bytes, bytearray)):
        return {"__hex__": bytes(o).hex()}
    if isinstance(o, (set, frozenset)):
        return sorted(o, key=repr)
    if isinstance(o, float):
        return repr(o)
    if isinstance(o, tuple):
        return list(o)
    return repr(o)


def jdump(obj, **kw):
    return json.dumps(obj, default=_json_default, **kw)


def unhex(o):
    """Inverse of the bytes encoding used in replay files."""
    if isinstance(o, dict):
        if set(o) == {"__hex__"}:
            return bytes.fromhex(o["__hex__"])
        return {k: unhex(v) for k, v in o.items()}
    if isinstance(o, list):
        return [unhex(v) for v in o]
    return o


MAX_HASHES = 3_000_000


class Ctx:
    """Per-job recording context (lives in a worker, merged by the parent)."""

    def __init__(self, pid, tier, seed, job_index, known):
        self.pid = pid
        self.tier = tier
        self.seed = seed  # derived, per job
        self.job_index = job_index
        self.known = known
        self.evaluations = 0
        self.nt = set()
        self.nt_overflow = 0
        self.samples = []
        self.classes = Counter()
        self.excluded = Counter()
        self.known_hits = {}
        self.violations = []  # dicts: bucket, detail, kind, case
        self.notes = []
        self.inconclusive = []
        self.exhaustive_parts = []
        self.extra = {}

    # -- recording -------------------------------------------------------------------------
    def case(self, canon, nontrivial, classes=(), sample=None):
        """Record one executed case.  canon: hashable/JSON-able canonical form (or an int hash)."""
        self.evaluations += 1
        if nontrivial:
            hv = canon if isinstance(canon, int) else h64(canon)
            if len(self.nt) < MAX_HASHES:
                self.nt.add(hv)
            else:
                self.nt_overflow += 1
        for c in classes:
            self.classes[c] += 1
        if sample is not None and len(self.samples) < 4:
            self.samples.append(sample)

    def bulk(self, n, distinct_nontrivial_hashes=(), classes=None):
        self.evaluations += n
        for hv in distinct_nontrivial_hashes:
            if len(self.nt) < MAX_HASHES:
                self.nt.add(hv)
            else:
                self.nt_overflow += 1
        if classes:
            self.classes.update(classes)

    def sample(self, s):
        if len(self.samples) < 4:
            self.samples.append(s)

    def is_known(self, disc, case):
        """True if the discrepancy is covered by an active known finding (then it is only counted)."""
        kid = self.known.match(self.pid, disc, case)
        if kid is not None:
            self.excluded[kid] += 1
            self.known_hits.setdefault(kid, disc.detail[:300])
            return True
        return False

    def violation(self, disc, kind, case):
        """Report an (unlisted) violation.  Returns False if it was a known finding."""
        if self.is_known(disc, case):
            return False
        for v in self.violations:
            if v["bucket"] == disc.bucket:
                v["count"] += 1
                return True
        self.violations.append(
            {"bucket": disc.bucket, "detail": disc.detail, "kind": kind, "case": case, "count": 1}
        )
        return True

    def result(self):
        return {
            "evaluations": self.evaluations,
            "nt": self.nt,
            "nt_overflow": self.nt_overflow,
            "samples": self.samples,
            "classes": self.classes,
            "excluded": self.excluded,
            "known_hits": self.known_hits,
            "violations": self.violations,
            "notes": self.notes,
            "inconclusive": self.inconclusive,
            "exhaustive_parts": self.exhaustive_parts,
            "extra": self.extra,
        }


# ---------------------------------------------------------------------------------------------
# Hypothesis driver: collect, classify, shrink, continue
# ---------------------------------------------------------------------------------------------
_VCLS = {}


class Violation(Exception):
    pass


class _StopShrink(BaseException):
    """raised inside a test function to end Hypothesis' shrinking once the budget is used up"""


def _vclass(bucket):
    c = _VCLS.get(bucket)
    if c is None:
        c = type("V_" + "".join(ch if ch.isalnum() else "_" for ch in bucket), (Violation,), {})
        _VCLS[bucket] = c
    return c


def hyp_search(ctx, kind, strategy, check_case, max_examples, seed_salt=0, max_rounds=None,
               shrink_budget_s=None, sample_of=None, stateful_steps=None):
    """Drive `check_case(case) -> (discs, nontrivial, classes)` over `strategy`.

    Discrepancies are bucketed; a known finding is counted and skipped; an unknown bucket is raised
    (a distinct exception class per bucket so Hypothesis shrinks that bucket only), shrunk, stored
    as a violation with the minimal case, muted, and the seeded search is re-run to look behind it.
    """
    import hypothesis
    from hypothesis import HealthCheck, Phase, given, settings

    if max_rounds is None:
        max_rounds = 3 if ctx.tier == "quick" else 6
    if shrink_budget_s is None:
        shrink_budget_s = 8.0 if ctx.tier == "quick" else 120.0
    muted = set()
    state = {"t_fail": None, "best": None}

    def wrapped(case):
        if state["t_fail"] is not None and time.monotonic() - state["t_fail"] > shrink_budget_s:
            raise _StopShrink()  # shrink budget used up: keep the smallest failing case seen so far
        discs, nontrivial, classes = check_case(case)
        # evidence samples: non-trivial cases taken at spaced points of the search, not its first (smallest) examples
        take = False
        if nontrivial and len(ctx.samples) < 4:
            state["nt_seen"] = state.get("nt_seen", 0) + 1
            take = state["nt_seen"] in (8, 30, 70, 140)
        ctx.case(_canon(case), nontrivial, classes, sample=_clip_sample(sample_of(case) if sample_of else case) if take else None)
        for d in discs:
            if d.bucket in muted:
                ctx.excluded["muted:" + d.bucket] += 1
                continue
            if ctx.is_known(d, case):
                continue
            if state["t_fail"] is None:
                state["t_fail"] = time.monotonic()
            state["best"] = (case, d)
            raise _vclass(d.bucket)(d.detail)

    for rnd in range(max_rounds):
        state["t_fail"] = None
        state["best"] = None
        test = given(strategy)(wrapped)
        test = hypothesis.seed((ctx.seed * 1000003 + seed_salt) & 0xFFFFFFFF)(test)
        test = settings(
            max_examples=max_examples,
            database=None,
            deadline=None,
            derandomize=False,
            report_multiple_bugs=False,
            print_blob=False,
            suppress_health_check=list(HealthCheck),
            phases=[Phase.generate, Phase.target, Phase.shrink],
        )(test)
        try:
            test()
        except (Violation, _StopShrink):
            pass
        except hypothesis.errors.HypothesisException as e:
            if state["best"] is None:
                raise HarnessError(f"hypothesis failure in {kind}: {e!r}")
        if state["best"] is None:
            return
        case, d = state["best"]
        ctx.violation(d, kind, case)
        muted.add(d.bucket)
    ctx.notes.append(f"{kind}: stopped after {max_rounds} rounds with buckets {sorted(muted)}")


def _round_robin(lists, n):
    """up to n samples, one from each job in turn, so that every part of a check is represented"""
    out, depth = [], 0
    while len(out) < n and any(len(l) > depth for l in lists):
        for l in lists:
            if len(l) > depth and len(out) < n and l[depth] not in out:
                out.append(l[depth])
        depth += 1
    return out


def _clip_sample(x, limit=1200):
    """evidence samples stay readable: a case whose JSON form is long is stored as its clipped text"""
    try:
        t = jdump(x)
    except Exception:
        t = repr(x)
    return x if len(t) <= limit else t[:limit] + " ...[clipped]"


def _canon(case):
    try:
        return h64(case)
    except Exception:
        return h64(repr(case))


# ---------------------------------------------------------------------------------------------
# Parent: plan, fork, merge, write evidence / replays
# ---------------------------------------------------------------------------------------------
def _derive_seed(seed, pid, idx):
    return (h64(f"{seed}/{pid}/{idx}") & 0x7FFFFFFF) or 1


def _limit_memory():
    """a case that makes the tested code allocate without bound must end as a MemoryError in that case, not as an OOM kill of the run"""
    try:
        import resource
        soft, hard = resource.getrlimit(resource.RLIMIT_AS)
        cap = int(os.environ.get("VERIF_MEM_GB", "6")) << 30
        if soft == resource.RLIM_INFINITY or soft > cap:
            resource.setrlimit(resource.RLIMIT_AS, (cap, hard))
    except Exception:
        pass


def _worker(args):
    modname, pid, tier, seed, idx, job = args
    _limit_memory()
    try:
        setup_imports()
        from . import findings
        import importlib

        mod = importlib.import_module(modname)
        ctx = Ctx(pid, tier, _derive_seed(seed, pid, idx), idx, findings.Known.load())
        t0 = time.monotonic()
        cov = None
        if os.environ.get("VERIF_COV"):   # tooling only (tools/coverage.sh): line coverage of the library per job
            import coverage
            cov = coverage.Coverage(data_file=os.path.join(os.environ["VERIF_COV"], f"cov.{pid}"), data_suffix=f"{idx}.{os.getpid()}",
                                    include=[os.path.join(REPO, "pycomm3", "*")], branch=True)
            cov.start()
        try:
            mod.run_job(ctx, job)
        finally:
            if cov is not None:
                cov.stop()
                cov.save()
        r = ctx.result()
        r["wall"] = time.monotonic() - t0
        r["job"] = job.get("part", "?")
        return ("ok", r)
    except HarnessError as e:
        return ("harness", f"{job}: {e}\n{traceback.format_exc()}")
    except BaseException as e:  # noqa
        return ("harness", f"{job}: {e!r}\n{traceback.format_exc()}")


def run_property(mod, tier, seed):
    pid = mod.PID
    t0 = time.monotonic()
    _limit_memory()
    setup_imports()
    from . import findings

    known = findings.Known.load()
    jobs = list(mod.plan(tier))
    # replay tier: every stored case of this property is a job part handled in the parent
    replay_dir = os.path.join(VERIF, "replays", pid)
    merged = Ctx(pid, tier, seed, -1, known)
    harness_errors = []

    replay_files = []
    if os.path.isdir(replay_dir):
        replay_files = sorted(f for f in os.listdir(replay_dir) if f.endswith(".json"))
    replayed = 0
    replay_violations = []
    for f in replay_files:
        path = os.path.join(replay_dir, f)
        try:
            rec = json.load(open(path))
            discs = mod.replay(merged, rec["kind"], unhex(rec["case"]))
        except Exception as e:
            harness_errors.append(f"replay {path}: {e!r}\n{traceback.format_exc()}")
            continue
        replayed += 1
        live = [d for d in discs if not merged.is_known(d, unhex(rec["case"]))]
        if live:
            replay_violations.append((path, live[0]))

    args = [(mod.__name__, pid, tier, seed, i, job) for i, job in enumerate(jobs)]
    results = []
    if args:
        nproc = min(NWORKERS, len(args))
        if nproc <= 1:
            results = [_worker(a) for a in args]
        else:
            ctxmp = mp.get_context("fork")
            with ctxmp.Pool(nproc, maxtasksperchild=None) as pool:
                results = pool.map(_worker, args, chunksize=1)

    per_part = Counter()
    part_wall = Counter()
    sample_lists = []
    for status, r in results:
        if status != "ok":
            harness_errors.append(r)
            continue
        merged.evaluations += r["evaluations"]
        room = MAX_HASHES - len(merged.nt)
        if room >= len(r["nt"]):
            merged.nt |= r["nt"]
        else:
            before = len(merged.nt)
            for hv in r["nt"]:
                if len(merged.nt) >= MAX_HASHES:
                    break
                merged.nt.add(hv)
            merged.nt_overflow += len(r["nt"]) - (len(merged.nt) - before)
        merged.nt_overflow += r["nt_overflow"]
        sample_lists.append(list(r["samples"]))
        merged.classes.update(r["classes"])
        merged.excluded.update(r["excluded"])
        for k, v in r["known_hits"].items():
            merged.known_hits.setdefault(k, v)
        merged.notes += r["notes"]
        merged.inconclusive += r["inconclusive"]
        merged.exhaustive_parts += r["exhaustive_parts"]
        for k, v in r["extra"].items():
            if isinstance(v, (int, float)):
                merged.extra[k] = merged.extra.get(k, 0) + v
            else:
                merged.extra[k] = v
        per_part[r["job"]] += r["evaluations"]
        part_wall[r["job"]] += r["wall"]
        for v in r["violations"]:
            for mv in merged.violations:
                if mv["bucket"] == v["bucket"]:
                    mv["count"] += v["count"]
                    if len(jdump(v["case"])) < len(jdump(mv["case"])):
                        mv["case"], mv["detail"], mv["kind"] = v["case"], v["detail"], v["kind"]
                    break
            else:
                merged.violations.append(dict(v))

    # write replay files for new violations
    out_lines = []
    nviol = 0
    for path, d in replay_violations:
        out_lines.append(f"VIOLATION property={pid} replay={path}")
        out_lines.append(f"  bucket={d.bucket} detail={d.detail[:300]}")
        nviol += 1
    out_replay_dir = os.path.join(OUT, "replays", pid)
    for v in merged.violations:
        os.makedirs(out_replay_dir, exist_ok=True)
        body = {"property": pid, "bucket": v["bucket"], "detail": v["detail"], "kind": v["kind"],
                "case": v["case"]}
        txt = jdump(body, indent=1, sort_keys=True)
        name = "new-" + "".join(c if c.isalnum() or c in "-." else "_" for c in v["bucket"])[:60]
        name += "-%08x.json" % (h64(txt) & 0xFFFFFFFF)
        path = os.path.join(out_replay_dir, name)
        with open(path, "w") as fh:
            fh.write(txt + "\n")
        out_lines.append(f"VIOLATION property={pid} replay={path}")
        out_lines.append(f"  bucket={v['bucket']} count={v['count']} detail={v['detail'][:300]}")
        nviol += 1

    for p_, kid, text in known.entries:      # every listed finding of this property, reached in this run or not
        if p_ == pid:
            n = merged.excluded.get(kid, 0)
            out_lines.append(f"KNOWN-FINDING: property={pid} {text} [{kid}; " + (f"hit {n}x in this run]" if n else "not reached by this run's cases]"))

    # generator health floors
    floors = getattr(mod, "FLOORS", {}).get(tier, {})
    for cls, minimum in floors.items():
        if merged.classes.get(cls, 0) < minimum:
            harness_errors.append(
                f"generator health: class {cls!r} seen {merged.classes.get(cls, 0)} < floor {minimum}")

    distinct = len(merged.nt) + 0  # overflowed hashes are not counted (conservative)
    wall = time.monotonic() - t0
    exhaustive = bool(getattr(mod, "EXHAUSTIVE", False)) and not harness_errors
    coverage = {
        "evaluations": int(merged.evaluations + replayed),
        "distinct_nontrivial": int(distinct),
        "rule": mod.RULE + (f" [hash set capped at {MAX_HASHES}; {merged.nt_overflow} further non-trivial"
                            f" cases not counted as distinct]" if merged.nt_overflow else ""),
        "samples": _round_robin(sample_lists, 8) or ["<none>"],
        "classes": dict(sorted(merged.classes.items())),
        "per_part_evaluations": dict(per_part),
        "per_part_cpu_s": {k: round(v, 2) for k, v in part_wall.items()},
        "replay_files_rerun": replayed,
        "excluded_by_known_finding": {k: v for k, v in merged.excluded.items() if not k.startswith("muted:")},
        "muted_after_report": {k[6:]: v for k, v in merged.excluded.items() if k.startswith("muted:")},
        "exhaustive_parts": sorted(set(merged.exhaustive_parts)),
        "inconclusive": merged.inconclusive[:20],
        "notes": merged.notes[:20],
        "jobs": len(jobs),
        "workers": min(NWORKERS, max(1, len(jobs))),
    }
    coverage.update({k: v for k, v in merged.extra.items()})
    if exhaustive:
        coverage["exhaustive"] = True
    ev = {
        "property_id": pid,
        "tier": tier,
        "seed": int(seed),
        "level": mod.LEVEL,
        "coverage": coverage,
        "assumptions": list(mod.ASSUMPTIONS),
        "wall_s": round(wall, 2),
        "violations": nviol,
    }
    os.makedirs(os.path.join(OUT, "evidence"), exist_ok=True)
    with open(os.path.join(OUT, "evidence", f"{pid}.json"), "w") as fh:
        fh.write(jdump(ev, indent=1) + "\n")

    for line in out_lines:
        print(line)
    print(f"[{pid}] tier={tier} seed={seed} evaluations={coverage['evaluations']} "
          f"distinct_nontrivial={distinct} violations={nviol} wall={wall:.1f}s")
    if harness_errors:
        for e in harness_errors[:5]:
            print("HARNESS-ERROR:", e, file=sys.stderr)
        if not nviol:
            return 2
        # a violation was found and reported; generator-health floors are usually missed *because* the tree is broken
    return 1 if nviol else 0


def run_replay(mod, path):
    setup_imports()
    from . import findings

    known = findings.Known.load()
    _limit_memory()
    ctx = Ctx(mod.PID, "quick", 1, -1, known)
    rec = json.load(open(path))
    discs = mod.replay(ctx, rec["kind"], unhex(rec["case"]))
    live = [d for d in discs if not ctx.is_known(d, unhex(rec["case"]))]
    for kid in ctx.known_hits:
        print(f"KNOWN-FINDING: property={mod.PID} {known.text(kid)} [{kid}]")
    if live:
        print(f"VIOLATION property={mod.PID} replay={path}")
        for d in live[:5]:
            print(f"  bucket={d.bucket} detail={d.detail[:500]}")
        return 1
    print(f"[{mod.PID}] replay {path}: property held")
    return 0
