"""Driver-side harness: Socket-level fake (SimSocket), raw-socket shim, driver factories."""
import sys

CURRENT = {"target": None, "sockets": [], "budget": 200_000}


class StepBudgetExceeded(BaseException):
    """the driver sent more frames than any terminating exchange of this size needs (endless request loop)"""


class SimSocket:
    """Stands where pycomm3.socket_.Socket would be (module global pycomm3.cip_driver.Socket)."""

    def __init__(self, timeout=5.0):
        self.timeout = timeout
        self.queue = []
        self.closed = False
        self.connected = None
        self.sent = []
        CURRENT["sockets"].append(self)

    def connect(self, host, port):
        self.connected = (host, port)

    def send(self, msg, timeout=0):
        if self.closed:
            raise OSError("send on closed socket")
        CURRENT["budget"] -= 1
        if CURRENT["budget"] < 0:
            raise StepBudgetExceeded()
        self.sent.append(bytes(msg))
        reply = CURRENT["target"].handle(bytes(msg))
        if reply is not None:
            self.queue.append(reply)
        return len(msg)

    def receive(self, timeout=0):
        if self.closed:
            raise OSError("receive on closed socket")
        if not self.queue:
            raise OSError("timed out")
        return self.queue.pop(0)

    def close(self):
        self.closed = True
        t = CURRENT["target"]
        if t is not None:
            t.tcp_closed()


def install(target, budget=20_000):
    """Route all driver traffic of this process to `target`."""
    import pycomm3.cip_driver as cd
    CURRENT["target"] = target
    CURRENT["sockets"] = []
    CURRENT["budget"] = budget
    cd.Socket = SimSocket


def uninstall():
    import pycomm3.cip_driver as cd
    from pycomm3.socket_ import Socket
    cd.Socket = Socket
    CURRENT["target"] = None


def open_logix(target, path="192.168.1.10", **kw):
    from pycomm3 import LogixDriver
    install(target)
    plc = LogixDriver(path, **kw)
    plc.open()
    return plc
