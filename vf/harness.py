"""Driver-side harness: Socket-level fake (SimSocket), raw-socket shim, driver factories."""
import sys

CURRENT = {"target": None, "sockets": [], "budget": 200_000, "drop": set(), "unit_sends": 0}


class StepBudgetExceeded(BaseException):
    """the driver sent more frames than any terminating exchange of this size needs (endless request loop)"""


class SimSocket:
    """Stands where pycomm3.socket_.Socket would be (module global pycomm3.cip_driver.Socket)."""

    def __init__(self, timeout=5.0):
        self.timeout = timeout
        self.queue = []
        self.closed = False
        self.connected = None
        self.sent = []
        CURRENT["sockets"].append(self)

    def connect(self, host, port):
        self.connected = (host, port)

    def send(self, msg, timeout=0):
        if self.closed:
            raise OSError("send on closed socket")
        CURRENT["budget"] -= 1
        if CURRENT["budget"] < 0:
            raise StepBudgetExceeded()
        self.sent.append(bytes(msg))
        reply = CURRENT["target"].handle(bytes(msg))
        if len(msg) >= 2 and msg[0] == 0x70 and msg[1] == 0:
            # the reply to the k-th connected message may get lost on the way: the target has executed the request, the caller
            # sees a time-out, and the connection stays usable
            k = CURRENT["unit_sends"]
            CURRENT["unit_sends"] = k + 1
            if k in CURRENT["drop"]:
                reply = None
        if reply is not None:
            self.queue.append(reply)
        return len(msg)

    def receive(self, timeout=0):
        if self.closed:
            raise OSError("receive on closed socket")
        if not self.queue:
            import socket
            from pycomm3.exceptions import CommError
            if CURRENT.get("raw_timeout"):
                raise socket.timeout("timed out")    # a transport that lets the OS error through (the driver accepts any exception here)
            raise CommError("socket connection broken") from socket.timeout("timed out")   # what the real Socket.receive raises
        return self.queue.pop(0)

    def close(self):
        self.closed = True
        t = CURRENT["target"]
        if t is not None:
            t.tcp_closed()


def install(target, budget=20_000):
    """Route all driver traffic of this process to `target`."""
    import pycomm3.cip_driver as cd
    CURRENT["target"] = target
    CURRENT["sockets"] = []
    CURRENT["budget"] = budget
    CURRENT["drop"] = set()
    CURRENT["unit_sends"] = 0
    CURRENT["raw_timeout"] = False
    cd.Socket = SimSocket


def uninstall():
    import pycomm3.cip_driver as cd
    from pycomm3.socket_ import Socket
    cd.Socket = Socket
    CURRENT["target"] = None


def open_logix(target, path="192.168.1.10", **kw):
    from pycomm3 import LogixDriver
    install(target)
    # an upload legitimately needs one frame per symbol page and per template fragment (a target may return one byte at a time)
    try:
        proj = target.project
        frag = max(1, getattr(target, "tmpl_frag", 480))
        blobs = sum(len(proj.template_blob(u)) // frag + 4 for u in proj.data["udts"])
        CURRENT["budget"] += 3 * (blobs + 4 * len(proj.data["tags"]) + 64)
    except Exception:
        pass
    plc = LogixDriver(path, **kw)
    plc.open()
    return plc


import contextlib


@contextlib.contextmanager
def entropy(mode):
    """The environment owns the library's sources of randomness (os.urandom for connection ids / serials, the `random` module):
    'min' / 'max' pin them to their extreme values for the duration of a case; 'os' leaves them alone.  Names imported into
    pycomm3 modules (`from os import urandom`, `from random import randint`) are replaced as well."""
    if mode in (None, "os"):
        yield
        return
    import os
    import random
    import sys
    lo = mode == "min"
    stubs = {
        "urandom": (os.urandom, (lambda n: b"\x00" * n) if lo else (lambda n: b"\xff" * n)),
        "randint": (random.randint, (lambda a, b: a) if lo else (lambda a, b: b)),
        "randrange": (random.randrange, (lambda a, b=None, *k: 0 if b is None else a) if lo else (lambda a, b=None, *k: (a - 1) if b is None else (b - 1))),
        "random": (random.random, (lambda: 0.0) if lo else (lambda: 0.9999999999)),
        "getrandbits": (random.getrandbits, (lambda k: 0) if lo else (lambda k: (1 << k) - 1)),
        "choice": (random.choice, (lambda seq: seq[0]) if lo else (lambda seq: seq[-1])),
    }
    patched = []
    try:
        mods = [m for n, m in list(sys.modules.items()) if n == "pycomm3" or n.startswith("pycomm3.")] + [random]
        for m in mods:
            for name, (orig, stub) in stubs.items():
                if getattr(m, name, None) is orig:
                    patched.append((m, name, orig))
                    setattr(m, name, stub)
        yield
    finally:
        for m, name, orig in patched:
            setattr(m, name, orig)
