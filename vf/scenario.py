"""Scenario engine shared by C01-C05, C09, C11, C13, C17: run a generated read/write call list through the
real LogixDriver against RefPLC and compare with the reference expectation.

A finding is (property, Disc).  Property modules keep the findings that speak to their property.
"""
import copy
import traceback

from . import harness
from .gen_project import expand_memory
from .gen_requests import render, result_name  # noqa (render re-exported)
from .project import ATOMIC, INT_BITS, LocateError, Project
from .refcodec import ref_equal
from .refplc import RefPLC
from .runner import Disc


def mkey(t):
    return f"{t.get('scope') or ''}/{t['name']}"


def where(e):
    tb = traceback.extract_tb(e.__traceback__)
    return next((f"{f.filename.split('/')[-1]}:{f.name}" for f in reversed(tb) if "/pycomm3/" in f.filename), "harness")


# ------------------------------------------------------------------------------------------------
# request -> location
# ------------------------------------------------------------------------------------------------
def locate_req(p, r):
    """-> (Loc, bool_index|None, is_bool_array)"""
    t = p.tags[(r.get("scope"), r["tag"])]
    if t["type"] == "DWORD" and t["dims"]:
        return p.locate_tag(t, []), (r["idx"][0] if r.get("idx") else None), True
    loc = p.locate_tag(t, r.get("idx") or [])
    boolidx, isbool = None, False
    for name, idx in r.get("path", []):
        if loc.bit is not None or loc.type in ATOMIC:
            raise LocateError(0x05, None, "no members")
        m = next((m for m in p.udts[loc.type]["members"] if m["name"] == name), None)
        if m is not None and m["kind"] == "atomic" and m["type"] == "DWORD" and m["array"]:
            loc = p.locate_member(loc, name, [])
            boolidx, isbool = idx, True
        else:
            loc = p.locate_member(loc, name, [idx] if idx is not None else [])
    return loc, boolidx, isbool


def check_paths(run, p, tgt, reqs, s0):
    """C09, end to end: every tag service the target executed for this call addresses a location one of the requests names
    (a well-formed path that denotes another tag or member is the failure this sees)"""
    ranges, tolerated, any_invalid = [], set(), False
    for r in reqs:
        t = p.tags.get((r.get("scope"), r["tag"]))
        if r.get("invalid"):
            any_invalid = True
            if t is not None:
                tolerated.add(tgt.mkey(t))
            continue
        try:
            loc, _, isbool = locate_req(p, r)
        except LocateError:
            any_invalid = True
            continue
        es = p.elem_size(loc.type)
        n = max(r.get("count") or 1, 1)
        hi = loc.offset + es * (loc.remaining if isbool else n)
        ranges.append((tgt.mkey(loc.tag), loc.offset, max(hi, loc.offset + 1)))
    for rec in tgt.svc_log[s0:]:
        if rec.get("forced"):
            continue
        if "tag" not in rec:
            if "error" in rec and not any_invalid:
                run.add("C09", "tagpath.unresolvable", f"a request path of a valid request does not resolve at the target: {rec.get('path', b'').hex()} ({rec['error']})"[:400])
            continue
        if rec["tag"] in tolerated or "offset" not in rec:
            continue
        if not any(k == rec["tag"] and lo <= rec["offset"] < hi for k, lo, hi in ranges):
            run.add("C09", "tagpath.other-object", f"the target executed a service on {rec['tag']} at byte {rec['offset']}, which none of the requests "
                                                    f"{[render(r) for r in reqs][:6]} addresses; path {rec.get('path', b'').hex()}"[:500])


def _traffic_bound(p, reqs):
    """generous upper bound of the frames the requests may legitimately need (>= 8 data bytes per fragment, 3 passes)"""
    total = 0
    for r in reqs:
        try:
            loc, _, isbool = locate_req(p, r)
            n = max(r.get("count") or 1, 1)
            size = p.elem_size(loc.type) * (n if not isbool else (n + 63) // 32)
        except Exception:
            size = 0
        total += 3 * (size // 8 + 8)
    return total


def kind_of(p, r):
    """coarse request class for bucketing / generator health"""
    try:
        loc, bi, isbool = locate_req(p, r)
    except LocateError:
        return "invalid"
    if isbool:
        return "boolarray.range" if (r.get("count") or 1) > 1 else "boolarray.bit"
    if loc.bit is not None:
        return "boolmember"
    if r.get("bit") is not None:
        return "intbit"
    base = "member." if r.get("path") else ""
    if loc.type in ATOMIC:
        k = "atomic"
    elif p.udts[loc.type].get("string") is not None:
        k = "string"
    else:
        k = "struct"
    if (r.get("count") or 1) > 1:
        k += ".slice"
    elif r.get("idx") is not None or (r.get("path") and r["path"][-1][1] is not None):
        k += ".elem"
    return base + k


def expected_read(p, mem, r):
    """-> (value, type string)"""
    loc, bi, isbool = locate_req(p, r)
    data = mem[mkey(loc.tag)]
    n = r.get("count")
    if isbool:
        raw = data[loc.offset:loc.offset + 4 * loc.remaining]
        bits = [bool(raw[i // 8] >> (i % 8) & 1) for i in range(len(raw) * 8)]
        i = bi or 0
        if n is None or n == 1:
            return bits[i], "BOOL"
        if i + n > len(bits):
            raise LocateError(0xFF, 0x2105, "bool range")
        return bits[i:i + n], f"BOOL[{n}]"
    if loc.bit is not None:
        return bool(data[loc.offset] >> loc.bit & 1), "BOOL"
    es = p.elem_size(loc.type)
    if r.get("bit") is not None:
        v = p.ref_value(loc.type, data[loc.offset:loc.offset + es])
        return bool(v >> r["bit"] & 1), "BOOL"
    n = n or 1
    if n > loc.remaining:
        raise LocateError(0xFF, 0x2105, "count")
    vals = [p.ref_value(loc.type, data[loc.offset + k * es:loc.offset + (k + 1) * es]) for k in range(n)]
    ts = p.type_string(loc.type)
    if n == 1:
        return vals[0], ts
    return vals, f"{ts}[{n}]"


def write_effect(p, r):
    """-> dict(key, start, data(bytes), care(bytes bitmask), svc=("write"|"rmw", key, off, length))"""
    loc, bi, isbool = locate_req(p, r)
    key = mkey(loc.tag)
    v = r["value"]
    n = r.get("count")
    if isbool:
        if n is None or (n == 1 and bi is not None):
            # one element of a BOOL array, also when asked for as a slice of one ({1}, value a one-element list as for other arrays)
            if n == 1 and isinstance(v, (list, tuple)):
                v = v[0]
            byte = loc.offset + bi // 8
            bit = bi % 8
            return {"key": key, "start": byte, "data": bytes([(1 << bit) if v else 0]), "care": bytes([1 << bit]),
                    "svc": ("rmw", key, loc.offset + (bi // 32) * 4, 4)}
        i = bi or 0
        start = loc.offset + (i // 32) * 4
        vals = list(v)[:n]
        data = b"".join(p.ref_encode("DWORD", vals[k:k + 32]) for k in range(0, n, 32))
        return {"key": key, "start": start, "data": data, "care": b"\xff" * len(data), "svc": ("write", key, start, len(data))}
    if loc.bit is not None:
        return {"key": key, "start": loc.offset, "data": bytes([(1 << loc.bit) if v else 0]), "care": bytes([1 << loc.bit]),
                "svc": ("write", key, loc.offset, 1)}
    es = p.elem_size(loc.type)
    if r.get("bit") is not None:
        byte = loc.offset + r["bit"] // 8
        bit = r["bit"] % 8
        return {"key": key, "start": byte, "data": bytes([(1 << bit) if v else 0]), "care": bytes([1 << bit]),
                "svc": ("rmw", key, loc.offset, es)}
    cnt = n or 1
    vals = list(v)[:cnt] if (n is not None and isinstance(v, list) and (cnt > 1 or loc.type not in ("DWORD",))) else [v]
    if n == 1 and not isinstance(v, list):
        vals = [v]
    data = b"".join(p.ref_encode(loc.type, x) for x in vals)
    care = bytearray(len(data))
    for k in range(len(vals)):
        for off, ln, mask in p.host_ranges(loc.type, k * es):
            for j in range(off, off + ln):
                care[j] |= mask if mask is not None else 0xFF
    if loc.type not in ATOMIC and p.udts[loc.type].get("string") is not None:
        care = bytearray(b"\xff" * len(data))
    return {"key": key, "start": loc.offset, "data": data, "care": bytes(care), "svc": ("write", key, loc.offset, len(data))}


def effects_overlap(a, b):
    if a["key"] != b["key"]:
        return False
    lo = max(a["start"], b["start"])
    hi = min(a["start"] + len(a["data"]), b["start"] + len(b["data"]))
    for j in range(lo, hi):
        if a["care"][j - a["start"]] & b["care"][j - b["start"]]:
            return True
    # struct writes also clear hidden bytes: treat any byte overlap with a multi-byte write as overlap
    if lo < hi and (len(a["data"]) > 1 and len(b["data"]) > 1):
        return True
    if lo < hi and (a["svc"][0] != b["svc"][0]) and (len(a["data"]) > 1 or len(b["data"]) > 1):
        return True
    return False


def dedupe_overlaps(p, reqs):
    """Overlapping writes in one call are order-ambiguous: replace a request that overlaps an earlier,
    different one by an exact duplicate of the earlier one (construction, not rejection)."""
    out, effs = [], []
    for r in reqs:
        if r.get("invalid"):
            out.append(r)
            effs.append(None)
            continue
        try:
            e = write_effect(p, r)
        except Exception:
            out.append(r)
            effs.append(None)
            continue
        clash = None
        for r0, e0 in zip(out, effs):
            if e0 is not None and effects_overlap(e, e0) and not (render(r0) == render(r) and r0["value"] == r["value"]):
                clash = r0
                break
        if clash is not None:
            out.append(copy.deepcopy(clash))
            effs.append(write_effect(p, clash))
        else:
            out.append(r)
            effs.append(e)
    return out


# ------------------------------------------------------------------------------------------------
# running a case
# ------------------------------------------------------------------------------------------------
class Run:
    def __init__(self):
        self.findings = []   # (prop, Disc)
        self.results = None
        self.classes = set()
        self.stats = {}

    def add(self, prop, bucket, detail):
        self.findings.append((prop, Disc(bucket, detail)))

    def of(self, *props):
        return [d for p_, d in self.findings if p_ in props]


def build_target(case):
    pd = case["pd"]
    p = Project(pd)
    mem = expand_memory(p, case["seeds"])
    cfg = dict(case["cfg"])
    if case.get("forced"):
        cfg["forced"] = [dict(f) for f in case["forced"]]
    tgt = RefPLC(p, mem, cfg)
    return p, mem, tgt


def open_driver(run, tgt, case):
    from pycomm3.exceptions import PycommError
    try:
        plc = harness.open_logix(tgt, case.get("path", "192.168.1.10"))
        return plc
    except harness.StepBudgetExceeded:
        run.add("C05", "open.nonterminating", "open() / tag upload kept sending requests (step budget exceeded)")
    except PycommError as e:
        chain = []
        x = e
        while x is not None:
            chain.append(f"{type(x).__name__}: {x}")
            x = x.__cause__
        run.add("C05", f"open.raises.{type(e).__name__}", " <- ".join(chain)[:600])
    except Exception as e:
        if where(e) == "harness":
            raise
        run.add("C10", f"open.foreign.{type(e).__name__}.{where(e)}", repr(e))
    return None


def collect_audits(run, tgt, start=0):
    for prop, code, detail in tgt.audits[start:]:
        run.add(prop, f"audit.{code}", detail)


def errclass(err):
    if err is None:
        return "none"
    s = "".join(c for c in str(err) if not c.isdigit())
    return "-".join(s.replace("'", "").replace('"', "").split()[:4])[:40]


OWNER = {"read": "C01", "write": "C02", "readback": "C02"}   # an exception instead of Tags also breaks the read / write property


def call(run, fn, what):
    """call a public driver method; only library exceptions may escape"""
    from pycomm3.exceptions import PycommError
    try:
        return True, fn()
    except harness.StepBudgetExceeded:
        for prop in ("C01", "C02", "C03", "C04"):
            run.add(prop, f"{what}.nonterminating", f"{what} kept sending requests (step budget exceeded)")
    except PycommError as e:
        run.add("C03", f"{what}.raises.{type(e).__name__}", f"{e!r} <- {e.__cause__!r}"[:500])
        if what in OWNER:
            run.add(OWNER[what], f"{what}.raises.{type(e).__name__}", f"{e!r} <- {e.__cause__!r}"[:500])
    except Exception as e:
        if where(e) == "harness":
            raise
        run.add("C03", f"{what}.foreign.{type(e).__name__}.{where(e)}", repr(e)[:400])
        run.add("C13", f"{what}.foreign.{type(e).__name__}.{where(e)}", repr(e)[:400])
        if what in OWNER:
            run.add(OWNER[what], f"{what}.foreign.{type(e).__name__}.{where(e)}", repr(e)[:400])
    return False, None


def check_results_shape(run, what, reqs, res):
    n = len(reqs)
    if n == 1:
        if isinstance(res, list):
            run.add("C03", f"{what}.shape.single", f"one request returned a list of {len(res)}")
            return res[:1] if res else None
        return [res]
    if not isinstance(res, list) or len(res) != n:
        run.add("C03", f"{what}.shape.count", f"{n} requests returned {type(res).__name__} of {len(res) if hasattr(res, '__len__') else '?'}")
        return None
    return res


def check_invalid(run, what, r, tag, forced_status=None):
    name = render(r)
    if tag:
        run.add("C03", f"{what}.invalid-succeeds.{r['invalid']}", f"{name} ({r['invalid']}) returned truthy {tag!r}"[:400])
    elif not tag.error or not str(tag.error).strip():
        run.add("C03", f"{what}.invalid-no-error.{r['invalid']}", f"{name}: falsy Tag without error text: {tag!r}"[:300])
    elif r["invalid"] == "forced" and forced_status is not None:
        from pycomm3.cip import SERVICE_STATUS
        text = SERVICE_STATUS.get(forced_status)
        ok = (text in tag.error) if text else (f"{forced_status:02x}" in tag.error.lower())
        if not ok:
            run.add("C13", f"{what}.forced-status-text", f"{name}: status {forced_status:#x} but error is {tag.error!r}")
    if tag.tag not in (name, result_name(r)):
        run.add("C03", f"{what}.name.invalid", f"request {name} answered as {tag.tag!r}")


def run_case(case, want_readback=True):
    """Executes case (op = read | write) and returns a Run with findings for all properties."""
    with harness.entropy(case.get("entropy")):
        return _run_case(case, want_readback)


def _run_case(case, want_readback):
    run = Run()
    p, mem0, tgt = build_target(case)
    run.tgt = tgt
    run.p = p
    plc = open_driver(run, tgt, case)
    collect_audits(run, tgt)
    if plc is None:
        run.classes.add("open-failed")
        return run
    run.plc = plc
    if case.get("double_open"):
        # open() on an open driver is a no-op that must not disturb the negotiated state
        run.classes.add("double-open")
        ok, r = call(run, plc.open, "reopen")
        if ok and r is not True:
            run.add("C10", "open.twice.result", f"second open() returned {r!r}")
    try:
        conn = next(iter(tgt.connections.values()), None)
        run.stats["conn_size"] = conn["size"] if conn else None
        if plc.connection_size != (conn["size"] if conn else plc.connection_size):
            run.add("C04", "connsize.mismatch", f"driver believes {plc.connection_size}, target granted {conn['size']}")
        reqs = case["reqs"]
        for f in tgt.forced:
            if "unitdata_after_open" in f.get("when", {}):   # counted from here: the frames of open() and the upload are behind us
                f["when"]["unitdata"] = tgt.unitdata_n + f["when"]["unitdata_after_open"]
        forced_status = {f["when"]["tag"]: f["status"] for f in case.get("forced", []) if "tag" in f.get("when", {})}
        # the step budget only has to tell a terminating call from a non-terminating one: it grows with the amount of data the
        # requests legitimately move (a target may return fragments of a dozen bytes; everything is read up to three times)
        harness.CURRENT["budget"] += _traffic_bound(p, reqs)
        run.transient = any("tag" not in f.get("when", {}) for f in case.get("forced", []))   # the target refuses something once / by position
        if case["op"] == "read":
            _run_read(run, p, tgt, plc, reqs, forced_status)
        else:
            _run_write(run, p, tgt, plc, reqs, forced_status, want_readback)
    finally:
        a0 = len(tgt.audits)
        ok, _ = call(run, plc.close, "close")
        collect_audits(run, tgt, a0)
        harness.uninstall()
    return run


def _packets_stats(run, tgt, log0, frames0):
    svcs = [e["service"] for e in tgt.log[log0:]]
    if svcs.count(0x0A) >= 2:
        run.classes.add("multi-packet-split")
    if 0x0A in svcs:
        run.classes.add("multi-service")
    if 0x52 in svcs and any(r.get("frag_offset") for r in tgt.svc_log):
        run.classes.add("fragmented-read")
    if 0x53 in svcs:
        run.classes.add("fragmented-write")
    if 0x4E in svcs:
        run.classes.add("rmw")


def _run_read(run, p, tgt, plc, reqs, forced_status):
    names = [render(r) for r in reqs]
    a0, l0 = len(tgt.audits), len(tgt.log)
    room0 = getattr(tgt, "room_refused", 0)
    s0 = len(tgt.svc_log)
    ok, res = call(run, lambda: plc.read(*names), "read")
    check_paths(run, p, tgt, reqs, s0)
    allowance = getattr(tgt, "room_refused", 0) - room0   # members the target itself refused for lack of room: those may fail
    collect_audits(run, tgt, a0)
    _packets_stats(run, tgt, l0, 0)
    if not ok:
        return
    res = check_results_shape(run, "read", reqs, res)
    if res is None:
        return
    run.results = res
    for r, tag in zip(reqs, res):
        name = render(r)
        if r.get("invalid"):
            check_invalid(run, "read", r, tag, forced_status.get(r["tag"]))
            continue
        k = kind_of(p, r)
        run.classes.add("read." + k)
        want, wtype = expected_read(p, tgt.memory, r)
        if not tag:
            if allowance > 0 and tag.error and "Insufficient Packet Space" in tag.error:
                allowance -= 1
                run.classes.add("room-refused")
                continue
            run.add("C01", f"read.falsy.{errclass(tag.error)}", f"{name}: {tag!r}"[:500])
            run.add("C03", f"read.valid-fails.{errclass(tag.error)}", f"{name}: {tag!r}"[:500])
            continue
        if tag.tag != result_name(r):
            run.add("C03", "read.name", f"request {name} answered as {tag.tag!r}")
        if not ref_equal(tag.value, want):
            run.add("C01", f"read.value.{k}", f"{name}: got {tag.value!r}, controller holds {want!r}"[:700])
        if tag.type != wtype:
            run.add("C01", f"read.type.{k}", f"{name}: type {tag.type!r}, expected {wtype!r}")
        if tag.error is not None:
            run.add("C03", "read.truthy-with-error", f"{name}: {tag!r}"[:300])
    # the caller owns the returned values: modify them in place, read again, and expect the controller's values again
    # (requests that failed the first time although they name something readable - a refusal the target made once - are asked again
    # too: whatever the failed transfer left behind must not show in a later answer; their second answer is compared only if truthy)
    valid = [(r, t) for r, t in zip(reqs, res) if not r.get("invalid")]
    retried = {id(r) for r, t in valid if not t}
    if valid and len(valid) <= 12:
        from .refcodec import scramble
        for r, t in valid:
            if isinstance(t.value, (list, dict)):
                scramble(t.value)
        room0 = getattr(tgt, "room_refused", 0)
        ok2, res2 = call(run, lambda: plc.read(*[render(r) for r, _ in valid]), "read")
        allowance = getattr(tgt, "room_refused", 0) - room0
        if ok2:
            res2 = res2 if isinstance(res2, list) else [res2]
            for (r, _), tag in zip(valid, res2):
                want, _ = expected_read(p, tgt.memory, r)
                if not tag and allowance > 0 and tag.error and "Insufficient Packet Space" in tag.error:
                    allowance -= 1
                    continue
                if not tag and (id(r) in retried or getattr(run, "transient", False)):
                    continue          # refused again, or the target's one refusal fell into this second call
                if not tag or not ref_equal(tag.value, want):
                    run.add("C01", f"read.repeat.{kind_of(p, r)}", f"{render(r)}: a second read (after the caller modified the first result) returned {_short(tag.value if tag else tag)}, controller holds {_short(want)}"[:700])


def _run_write(run, p, tgt, plc, reqs, forced_status, want_readback):
    before = {k: bytes(v) for k, v in tgt.memory.items()}
    model = {k: bytearray(v) for k, v in before.items()}
    care_all = {k: bytearray(b"\xff" * len(v)) for k, v in before.items()}
    pairs = [(render(r), r["value"]) for r in reqs]
    s0 = len(tgt.svc_log)
    a0, l0 = len(tgt.audits), len(tgt.log)
    if len(pairs) == 1:
        ok, res = call(run, lambda: plc.write(pairs[0][0], pairs[0][1]), "write")
    else:
        ok, res = call(run, lambda: plc.write(*pairs), "write")
    tgt.audit_write_transfers()
    check_paths(run, p, tgt, reqs, s0)
    collect_audits(run, tgt, a0)
    _packets_stats(run, tgt, l0, 0)
    if not ok:
        return
    res = check_results_shape(run, "write", reqs, res)
    if res is None:
        return
    run.results = res
    expected_svcs = []
    rmw_words = set()
    succeeded = []
    for r, tag in zip(reqs, res):
        name = render(r)
        if r.get("invalid"):
            check_invalid(run, "write", r, tag, forced_status.get(r["tag"]))
            continue
        k = kind_of(p, r)
        run.classes.add("write." + k)
        if not tag:
            # progress: a request that is valid by construction must be reported successful
            run.add("C02", f"write.valid-fails.{k.split('.')[0]}.{errclass(tag.error)}", f"{name} <- {_short(r['value'])}: {tag!r}"[:500])
            run.add("C03", f"write.valid-fails.{errclass(tag.error)}", f"{name}: {tag!r}"[:500])
            continue
        if tag.tag != result_name(r):
            run.add("C03", "write.name", f"request {name} answered as {tag.tag!r}")
        eff = write_effect(p, r)
        succeeded.append((r, eff))
        m = model[eff["key"]]
        c = care_all[eff["key"]]
        if len(eff["data"]) == 1 and eff["care"][0] != 0xFF:
            cm, b = eff["care"][0], eff["data"][0]        # single bit: the other bits of the byte keep their value
            m[eff["start"]] = (m[eff["start"]] & ~cm & 0xFF) | (b & cm)
        else:
            for j, (b, cm) in enumerate(zip(eff["data"], eff["care"])):
                m[eff["start"] + j] = b
                c[eff["start"] + j] = cm                  # hidden bytes/bits inside a written structure are not compared
        if eff["svc"][0] == "rmw":
            rmw_words.add(eff["svc"][1:])
        else:
            expected_svcs.append(eff["svc"][1:])
    # 1+2: memory image equals the model wherever we care
    for key, actual in tgt.memory.items():
        m, c = model[key], care_all[key]
        if any((a ^ b) & cm for a, b, cm in zip(actual, m, c)):
            pos = next(i for i, (a, b, cm) in enumerate(zip(actual, m, c)) if (a ^ b) & cm)
            inside = [render(r) for r, e in succeeded if e["key"] == key and e["start"] <= pos < e["start"] + len(e["data"])]
            if inside:
                r0 = next(r for r, e in succeeded if render(r) == inside[0])
                run.add("C02", f"write.content.{kind_of(p, r0)}",
                        f"{inside[0]} <- {_short(r0['value'])}: byte {pos} of {key} is {actual[pos]:#04x}, expected {m[pos]:#04x} (before {before[key][pos]:#04x})"[:600])
            else:
                run.add("C02", "write.outside", f"byte {pos} of {key} changed from {before[key][pos]:#04x} to {actual[pos]:#04x} although no successful request addresses it; requests: {[render(r) for r in reqs][:6]}"[:600])
    # 3: each request applied exactly once
    done = []
    frags = {}
    rmws = []
    for rec in tgt.svc_log[s0:]:
        if not rec.get("executed") or not rec.get("write"):
            continue
        if rec["service"] == 0x4D:
            done.append((rec["tag"], rec["offset"], rec["length"]))
        elif rec["service"] == 0x53:
            fk = (rec["tag"], rec["base"], rec["total"])
            frags[fk] = frags.get(fk, 0) + rec["length"]
        elif rec["service"] == 0x4E:
            rmws.append((rec["tag"], rec["offset"], rec["length"]))
    for (tagk, base, total), got in frags.items():
        for _ in range(max(1, got // max(total, 1))):
            done.append((tagk, base, total))
    if sorted(done) != sorted(expected_svcs):
        extra = [d for d in done if d not in expected_svcs] or [d for d in set(done) if done.count(d) > expected_svcs.count(d)]
        missing = [d for d in expected_svcs if d not in done] or [d for d in set(expected_svcs) if expected_svcs.count(d) > done.count(d)]
        run.add("C02", "write.once", f"write services executed {sorted(done)[:6]} vs successful requests {sorted(expected_svcs)[:6]}; extra={extra[:3]} missing={missing[:3]}"[:700])
    # bit writes: every requested bit is touched (with the requested polarity) by at least one and at most as many
    # read-modify-write services as there are requests for it (requests on one word may be merged); nothing else is touched
    want_bits = {}
    for r, e in succeeded:
        if e["svc"][0] == "rmw":
            word = e["svc"][1:]
            bit = (e["start"] - word[1]) * 8 + (e["care"][0].bit_length() - 1)
            want_bits.setdefault(word, {}).setdefault(bit, []).append(bool(e["data"][0]))
    got_bits = {}
    for rec in tgt.svc_log[s0:]:
        if rec.get("executed") and rec["service"] == 0x4E:
            word = (rec["tag"], rec["offset"], rec["length"])
            om, am = rec["rmw"]
            for b in range(rec["length"] * 8):
                if om >> b & 1:
                    got_bits.setdefault(word, {}).setdefault(b, []).append(True)
                if not am >> b & 1:
                    got_bits.setdefault(word, {}).setdefault(b, []).append(False)
    if set(got_bits) != set(want_bits):
        run.add("C02", "write.once.rmw.words", f"read-modify-write executed on {sorted(got_bits)[:5]}, bit writes address {sorted(want_bits)[:5]}")
    else:
        for word, bits in want_bits.items():
            g = got_bits[word]
            if set(g) != set(bits):
                run.add("C02", "write.once.rmw.bits", f"{word}: services touch bits {sorted(g)}, requests address bits {sorted(bits)}")
                break
            for b, vals in bits.items():
                if len(set(vals)) == 1 and (set(g[b]) != set(vals) or not 1 <= len(g[b]) <= len(vals)):
                    run.add("C02", "write.once.rmw.count", f"{word} bit {b}: requested {vals}, services applied {g[b]}")
                    break
    # 4: read back
    if want_readback and succeeded:
        names = []
        for r, e in succeeded:
            names.append(render(r))
        uniq = list(dict.fromkeys(names))
        room0 = getattr(tgt, "room_refused", 0)
        ok, back = call(run, lambda: plc.read(*uniq), "readback")
        allowance = getattr(tgt, "room_refused", 0) - room0   # members the target itself refused for lack of room
        excused = set()
        if ok:
            back = back if isinstance(back, list) else [back]
            byname = dict(zip(uniq, back))
            for r, e in succeeded:
                tag = byname.get(render(r))
                try:
                    want, _ = expected_read(p, model, r)
                except LocateError:
                    continue
                if tag is not None and not tag and tag.error and "Insufficient Packet Space" in tag.error and (render(r) in excused or allowance > 0):
                    if render(r) not in excused:     # several written requests may share one read-back request
                        excused.add(render(r))
                        allowance -= 1
                    continue
                if tag is None or not tag:
                    run.add("C02", f"readback.falsy.{errclass(tag.error if tag is not None else None)}", f"{render(r)}: {tag!r}"[:400])
                elif not ref_equal(tag.value, want):
                    run.add("C02", f"readback.value.{kind_of(p, r)}", f"{render(r)} <- {_short(r['value'])}: read back {_short(tag.value)}, expected {_short(want)}"[:700])


def _short(v):
    s = repr(v)
    return s if len(s) < 200 else s[:200] + "..."
