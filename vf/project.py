"""Controller project model: tags, UDT templates, memory image, reference interpretation.

Plain Python + struct, imports nothing from pycomm3.  A project is JSON-able data (see gen_project);
`Project` wraps it with layout helpers shared by the reference target (wire side) and the oracle
(request-string side).  The two sides use *different front ends* (wire EPATH vs request string) and
only share the memory layout arithmetic below.
"""
import struct

ATOMIC = {  # name -> (CIP type code, size)
    "BOOL": (0xC1, 1), "SINT": (0xC2, 1), "INT": (0xC3, 2), "DINT": (0xC4, 4), "LINT": (0xC5, 8),
    "USINT": (0xC6, 1), "UINT": (0xC7, 2), "UDINT": (0xC8, 4), "ULINT": (0xC9, 8),
    "REAL": (0xCA, 4), "LREAL": (0xCB, 8), "DWORD": (0xD3, 4),
}
CODE_TO_ATOMIC = {v[0]: k for k, v in ATOMIC.items()}
FMT = {"SINT": "<b", "INT": "<h", "DINT": "<i", "LINT": "<q", "USINT": "<B", "UINT": "<H", "UDINT": "<I",
       "ULINT": "<Q", "REAL": "<f", "LREAL": "<d"}
INT_BITS = {"SINT": 8, "INT": 16, "DINT": 32, "LINT": 64, "USINT": 8, "UINT": 16, "UDINT": 32, "ULINT": 64}
EXTERNAL_ACCESS_TEXT = {0: "Read/Write", 1: "Reserved", 2: "Read Only", 3: "None"}


def is_hidden_name(name, predefined=False):
    return name.startswith("ZZZZZZZZZZ") or name.startswith("__") or (predefined and name in ("CTL", "Control"))


class Loc:
    """A located piece of a tag: byte offset inside the tag's memory, element type, how many elements
    remain from here, and (for BOOL members) the bit inside the host byte."""

    __slots__ = ("tag", "type", "offset", "remaining", "bit", "indexed", "is_array")

    def __init__(self, tag, type_, offset, remaining, bit=None, indexed=False, is_array=False):
        self.tag = tag
        self.type = type_
        self.offset = offset
        self.remaining = remaining
        self.bit = bit
        self.indexed = indexed
        self.is_array = is_array

    def __repr__(self):
        return f"Loc({self.tag['name']}, {self.type}, off={self.offset}, rem={self.remaining}, bit={self.bit})"


class LocateError(Exception):
    def __init__(self, status, ext=None, msg=""):
        super().__init__(msg)
        self.status = status
        self.ext = ext


class Project:
    def __init__(self, data):
        self.data = data
        self.udts = {u["name"]: u for u in data["udts"]}
        self.udt_by_id = {u["tid"]: u for u in data["udts"]}
        self.tags = {}
        for t in data["tags"]:
            self.tags[(t.get("scope"), t["name"])] = t
        self.programs = {p["name"]: p for p in data.get("programs", [])}

    # -- sizes ------------------------------------------------------------------------------
    def elem_size(self, type_):
        if type_ in ATOMIC:
            return ATOMIC[type_][1]
        return self.udts[type_]["size"]

    def n_elements(self, tag):
        n = 1
        for d in tag["dims"]:
            n *= d
        return n

    def tag_size(self, tag):
        return self.elem_size(tag["type"]) * self.n_elements(tag)

    def is_struct(self, type_):
        return type_ not in ATOMIC

    def string_capacity(self, type_):
        u = self.udts.get(type_)
        return u.get("string") if u else None

    # -- wire descriptions --------------------------------------------------------------------
    def symbol_type(self, tag):
        dims = len(tag["dims"]) << 13
        if tag.get("raw_type_code") is not None:     # a type code the target reports instead of the real one (unknown to the client)
            return dims | tag["raw_type_code"]
        if self.is_struct(tag["type"]):
            return 0x8000 | dims | (self.udts[tag["type"]]["tid"] & 0x0FFF)
        if tag["type"] == "BOOL" and not tag["dims"]:
            # bits 8-10 of a BOOL symbol's type word: the position of the bit in the byte that hosts it in the controller
            return dims | ATOMIC["BOOL"][0] | ((tag.get("bitpos", 0) & 7) << 8)
        return dims | ATOMIC[tag["type"]][0]

    def type_header(self, type_):
        """bytes that precede data in a read reply / are sent in a write request"""
        if self.is_struct(type_):
            return b"\xa0\x02" + struct.pack("<H", self.udts[type_]["handle"])
        return struct.pack("<H", ATOMIC[type_][0])

    def template_blob(self, udt):
        out = b""
        for m in udt["members"]:
            if m["kind"] == "bit":
                info, typ = m["bit"], 0xC1
            elif m["kind"] == "udt":
                info, typ = m["array"], 0x8000 | (self.udts[m["type"]]["tid"] & 0x0FFF)
                if m["array"]:
                    typ |= 0x2000
            else:
                info, typ = m["array"], ATOMIC[m["type"]][0]
                if m["array"] and udt.get("dim_flag", True):
                    typ |= 0x2000
            out += struct.pack("<HHI", info, typ, m["offset"])
        if udt.get("name_has_semicolon", True):
            out += udt["name"].encode("ascii") + b";n" + b"%X" % len(udt["members"]) + b"\x00"
        else:  # predefined types: the name is the first entry of the name list
            out += udt["name"].encode("ascii") + b"\x00"
        for m in udt["members"]:
            out += m["name"].encode("ascii") + b"\x00"
        while (len(out) + 23) % 4:
            out += b"\x00"
        return out

    def template_attrs(self, udt):
        blob = self.template_blob(udt)
        return {"object_definition_size": (len(blob) + 23) // 4, "structure_size": udt["size"],
                "member_count": len(udt["members"]), "structure_handle": udt["handle"]}

    # -- location arithmetic --------------------------------------------------------------------
    def locate_tag(self, tag, indices):
        """tag + optional index list -> Loc"""
        dims = tag["dims"]
        total = self.n_elements(tag)
        es = self.elem_size(tag["type"])
        if not indices:
            return Loc(tag, tag["type"], 0, total, is_array=bool(dims))
        if len(indices) != len(dims):
            raise LocateError(0x05, None, f"{len(indices)} indices for {len(dims)} dimensions")
        lin = 0
        for i, d in zip(indices, dims):
            if i >= d:
                raise LocateError(0xFF, 0x2105, f"index {i} beyond dimension {d}")
            lin = lin * d + i
        return Loc(tag, tag["type"], lin * es, total - lin, indexed=True, is_array=True)

    def locate_member(self, loc, name, indices):
        if loc.bit is not None or not self.is_struct(loc.type):
            raise LocateError(0x05, None, f"{loc.type} has no members")
        u = self.udts[loc.type]
        m = next((m for m in u["members"] if m["name"] == name), None)
        if m is None:
            raise LocateError(0x05, None, f"no member {name} in {loc.type}")
        if m["kind"] == "bit":
            if indices:
                raise LocateError(0x05, None, "index on a BOOL member")
            return Loc(loc.tag, "BOOL", loc.offset + m["offset"], 1, bit=m["bit"])
        es = self.elem_size(m["type"])
        off = loc.offset + m["offset"]
        if m["array"]:
            if not indices:
                return Loc(loc.tag, m["type"], off, m["array"], is_array=True)
            if len(indices) != 1:
                raise LocateError(0x05, None, "member arrays have one dimension")
            if indices[0] >= m["array"]:
                raise LocateError(0xFF, 0x2105, "member index out of range")
            return Loc(loc.tag, m["type"], off + indices[0] * es, m["array"] - indices[0], indexed=True, is_array=True)
        if indices:
            raise LocateError(0x05, None, "index on a scalar member")
        return Loc(loc.tag, m["type"], off, 1)

    # -- reference interpretation ----------------------------------------------------------------
    def ref_value(self, type_, data):
        """bytes of ONE element of `type_` -> the Python value the documentation promises"""
        if type_ == "BOOL":
            return data[0] != 0
        if type_ == "DWORD":
            x = struct.unpack("<I", data[:4])[0]
            return [bool(x >> i & 1) for i in range(32)]
        if type_ in FMT:
            return struct.unpack(FMT[type_], data[:ATOMIC[type_][1]])[0]
        u = self.udts[type_]
        if u.get("string") is not None:
            ln = struct.unpack("<i", data[:4])[0]
            return bytes(data[4:4 + max(ln, 0)]).decode("latin-1")
        out = {}
        for m in u["members"]:
            if m["hidden"]:
                continue
            out[m["name"]] = self.member_value(m, data)
        return out

    def member_value(self, m, data):
        if m["kind"] == "bit":
            return bool(data[m["offset"]] >> m["bit"] & 1)
        es = self.elem_size(m["type"])
        if m["array"]:
            if m["type"] == "DWORD":
                out = []
                for i in range(m["array"]):
                    out += self.ref_value("DWORD", data[m["offset"] + 4 * i:m["offset"] + 4 * i + 4])
                return out
            return [self.ref_value(m["type"], data[m["offset"] + i * es:m["offset"] + (i + 1) * es]) for i in range(m["array"])]
        return self.ref_value(m["type"], data[m["offset"]:m["offset"] + es])

    def ref_encode(self, type_, value, old=None):
        """Python value -> bytes of one element.  `old`: previous bytes (hidden members keep their content
        only if the writer reads them first - the library does not, it writes zeros there; so `old` is
        used only by oracles that want to compare visible content)."""
        if type_ == "BOOL":
            return b"\xff" if value else b"\x00"
        if type_ == "DWORD":
            x = 0
            for i, b in enumerate(value):
                if b:
                    x |= 1 << i
            return struct.pack("<I", x)
        if type_ in FMT:
            return struct.pack(FMT[type_], value)
        u = self.udts[type_]
        if u.get("string") is not None:
            cap = u["string"]
            s = value[:cap].encode("latin-1")
            return struct.pack("<i", len(s)) + s + b"\x00" * (u["size"] - 4 - len(s))
        buf = bytearray(old if old is not None else bytes(u["size"]))
        for m in u["members"]:
            if m["hidden"]:
                continue
            v = value[m["name"]]
            if m["kind"] == "bit":
                if v:
                    buf[m["offset"]] |= 1 << m["bit"]
                else:
                    buf[m["offset"]] &= ~(1 << m["bit"]) & 0xFF
                continue
            es = self.elem_size(m["type"])
            if m["array"]:
                if m["type"] == "DWORD":
                    for i in range(m["array"]):
                        buf[m["offset"] + 4 * i:m["offset"] + 4 * i + 4] = self.ref_encode("DWORD", v[32 * i:32 * i + 32])
                else:
                    for i in range(m["array"]):
                        o = m["offset"] + i * es
                        buf[o:o + es] = self.ref_encode(m["type"], v[i], buf[o:o + es])
            else:
                o = m["offset"]
                buf[o:o + es] = self.ref_encode(m["type"], v, buf[o:o + es])
        return bytes(buf)

    def type_string(self, type_):
        """documented data-type name of an element type"""
        if type_ in ATOMIC:
            return type_
        u = self.udts[type_]
        return "STRING" if u["name"] == "ASCIISTRING82" else u["name"]

    def visible_members(self, udt):
        return [m for m in udt["members"] if not m["hidden"]]

    def host_ranges(self, type_, base=0):
        """byte ranges of one element of `type_` that visible members cover (for 'only visible content
        is compared' oracles).  Returns list of (offset, length, bitmask or None)."""
        if type_ in ATOMIC:
            return [(base, ATOMIC[type_][1], None)]
        u = self.udts[type_]
        if u.get("string") is not None:
            return [(base, 4, None), (base + 4, u["string"], None)]
        out = []
        for m in u["members"]:
            if m["hidden"]:
                continue
            if m["kind"] == "bit":
                out.append((base + m["offset"], 1, 1 << m["bit"]))
                continue
            es = self.elem_size(m["type"])
            for i in range(m["array"] or 1):
                out += self.host_ranges(m["type"], base + m["offset"] + i * es)
        return out
