"""Known findings: KNOWN_FINDINGS.txt is committed and never written at run time.

    known: property=C18 id=<matcher id> <what fails, identified by input / call site>
    fixed: property=C02 <commit> <what failed>            (suppresses nothing)

A `known:` line is honoured only if MATCHERS has a predicate with that id; the predicate looks at the
discrepancy (bucket, detail) and the case, so a different failure of the same property is still a
VIOLATION.
"""
import os
import re

HERE = os.path.dirname(os.path.dirname(os.path.abspath(__file__)))
PATH = os.path.join(HERE, "KNOWN_FINDINGS.txt")

# id -> predicate(disc, case) -> bool
MATCHERS = {}


def matcher(kid):
    def deco(fn):
        MATCHERS[kid] = fn
        return fn
    return deco


@matcher("c13-corrupt-size-field-memoryerror")
def _c13_mem(disc, case):
    # only this: after a corrupted upload reply a type definition claims more than 16 MB, and a public call then either lets a
    # MemoryError escape or keeps sending fragments of a value of that size (the check names this one root cause itself)
    return disc.bucket.startswith("corrupt.oversized-type-definition.")


class Known:
    _cache = None

    def __init__(self, entries):
        self.entries = entries  # list of (pid, kid, text)

    @classmethod
    def load(cls):
        if cls._cache is not None:
            return cls._cache
        entries = []
        if os.path.exists(PATH):
            for line in open(PATH):
                line = line.strip()
                m = re.match(r"known:\s+property=(C\d+)\s+id=(\S+)\s+(.*)$", line)
                if m and m.group(2) in MATCHERS:
                    entries.append((m.group(1), m.group(2), m.group(3)))
        cls._cache = cls(entries)
        return cls._cache

    def match(self, pid, disc, case):
        for p, kid, _ in self.entries:
            if p == pid:
                try:
                    if MATCHERS[kid](disc, case):
                        return kid
                except Exception:
                    pass
        return None

    def text(self, kid):
        for _, k, t in self.entries:
            if k == kid:
                return t
        return kid
