"""Hypothesis strategies for controller projects (JSON-able data), memory images and target configs."""
import struct

from hypothesis import strategies as st

from .project import ATOMIC, Project

ATOMIC_TAG_TYPES = ["BOOL", "SINT", "INT", "DINT", "LINT", "USINT", "UINT", "UDINT", "ULINT", "REAL", "LREAL"]
MEMBER_ATOMICS = ["SINT", "INT", "DINT", "LINT", "USINT", "UINT", "UDINT", "ULINT", "REAL", "LREAL"]
ALIGN = {1: 1, 2: 2, 4: 4, 8: 8}
FIRST = "ABCDEFGHIJKLMNOPQRSTUVWXYZabcdefghijklmnopqrstuvwxyz"
REST = FIRST + "0123456789_"
RESERVED = {"LEN", "DATA", "CTL", "Control"}

BUILTIN_STRING = {
    "name": "ASCIISTRING82", "tid": 0xFCE, "handle": 0x0FCE, "size": 88, "string": 82, "predefined": True,
    "name_has_semicolon": True,
    "members": [
        {"name": "LEN", "kind": "atomic", "type": "DINT", "array": 0, "offset": 0, "hidden": False},
        {"name": "DATA", "kind": "atomic", "type": "SINT", "array": 82, "offset": 4, "hidden": False},
    ],
}


@st.composite
def ident(draw, used, maxlen=12, minlen=None):
    """a fresh identifier; lengths cover odd/even, 1 and the 40-character maximum"""
    for _ in range(50):
        if minlen is not None:
            n = draw(st.integers(minlen, maxlen))
        else:
            n = draw(st.sampled_from([1, 2, 3, 4, 5, 6, 7, 8, 9, maxlen, maxlen, 39, 40]) if maxlen >= 12 else st.integers(1, maxlen))
        n = min(n, 40)
        s = draw(st.sampled_from(FIRST)) + draw(st.text(alphabet=REST, min_size=n - 1, max_size=n - 1))
        if s.startswith("__") or s in RESERVED or s.lower() in used or s.startswith("ZZZZZZZZZZ") or s.isdigit():
            continue
        used.add(s.lower())
        return s
    s = "T%d" % len(used)
    used.add(s.lower())
    return s


def pad_to(off, a):
    return (off + a - 1) // a * a


@st.composite
def string_udt(draw, used_names, used_tids):
    cap = draw(st.one_of(st.integers(1, 12), st.integers(1, 200), st.sampled_from([1, 2, 3, 4, 82, 83, 200])))
    name = draw(ident(used_names))
    return {
        "name": name, "tid": draw(fresh_tid(used_tids)), "handle": draw(st.integers(1, 0xFFFF)),
        "size": pad_to(4 + cap, 4), "string": cap, "predefined": False, "name_has_semicolon": True,
        "members": [
            {"name": "LEN", "kind": "atomic", "type": "DINT", "array": 0, "offset": 0, "hidden": False},
            {"name": "DATA", "kind": "atomic", "type": "SINT", "array": cap, "offset": 4, "hidden": False},
        ],
    }


@st.composite
def lookalike_udt(draw, used_names, used_tids):
    """an ordinary structure whose only members happen to be called LEN and DATA (a message buffer): not a string type - a string
    has a DINT LEN at offset 0 and its SINT data at offset 4"""
    lt = draw(st.sampled_from(["INT", "SINT", "LINT", "REAL", "UDINT", "INT"]))
    ls = ATOMIC[lt][1]
    n = draw(st.integers(1, 12))
    doff = ls + draw(st.sampled_from([0, 0, 2]))
    return {
        "name": draw(ident(used_names)), "tid": draw(fresh_tid(used_tids)), "handle": draw(st.integers(1, 0xFFFF)),
        "size": pad_to(doff + n, 4), "string": None, "predefined": False, "name_has_semicolon": True,
        "members": [
            {"name": "LEN", "kind": "atomic", "type": lt, "array": 0, "offset": 0, "hidden": False},
            {"name": "DATA", "kind": "atomic", "type": "SINT", "array": n, "offset": doff, "hidden": False},
        ],
    }


@st.composite
def fresh_tid(draw, used, predefined=False):
    for _ in range(100):
        if predefined:
            # every id outside the user range, including those that equal an elementary type code (0x0C1-0x0DE)
            t = draw(st.one_of(st.integers(0x001, 0x0FF), st.integers(0x0C1, 0x0DE), st.integers(0xF00, 0xFCD), st.integers(0xFCF, 0xFFF),
                               st.sampled_from([0x0FF, 0xF00, 0xFFF, 0x001, 0x0C1, 0x0C4, 0x0D3])))
        else:
            t = draw(st.one_of(st.integers(0x100, 0xEFF), st.sampled_from([0x100, 0x101, 0xEFE, 0xEFF])))
        if t not in used:
            used.add(t)
            return t
    # (reached when the draws keep colliding, e.g. while a failing case is being shrunk) the first free id of the SAME range: an id from
    # the other range would contradict the type's `predefined` flag - the member-visibility rules of the two ranges differ
    pool = list(range(0x001, 0x100)) + list(range(0xF00, 0x1000)) if predefined else range(0x100, 0xF00)
    t = next(x for x in pool if x not in used and x != 0xFCE)
    used.add(t)
    return t


@st.composite
def udt(draw, earlier, used_names, used_tids, depth_of):
    """A user-defined (or predefined-range) structure built from atomics, arrays, packed BOOLs,
    DWORD-backed BOOL arrays, strings and earlier UDTs; offsets follow Logix alignment plus drawn gaps."""
    name = draw(ident(used_names))
    predefined = draw(st.integers(0, 7)) == 0
    members = []
    mnames = set()
    off = 0
    n = draw(st.integers(1, 6))
    nest_ok = [u for u in earlier if depth_of[u["name"]] < 2]
    depth = 0
    for i in range(n):
        kinds = ["atomic", "atomic", "array", "bools", "hidden", "vbools"]
        if nest_ok:
            kinds += ["nested", "nested", "nested"]
        strs = [u for u in earlier if u.get("string") is not None]
        if strs:
            kinds.append("string")
        kinds.append("dwords")
        kind = draw(st.sampled_from(kinds))
        gap = draw(st.sampled_from([0, 0, 0, 0, 4, 8]))
        if kind in ("atomic", "array", "hidden"):
            t = draw(st.sampled_from(MEMBER_ATOMICS))
            es = ATOMIC[t][1]
            off = pad_to(off, es) + gap
            arr = 0
            if kind == "array":
                # (now and then a member so large that one element of the structure no longer fits a packet: 500 / 4000 bytes)
                arr = draw(st.one_of(st.integers(1, 8), st.integers(1, 8), st.integers(9, 40), st.integers(1, 8), st.integers(9, 40),
                                     st.sampled_from([130, 260, 520, 1010])))
            mname = draw(ident(mnames, maxlen=8))
            hidden = kind == "hidden"
            if hidden:
                mname = "__" + mname
            elif draw(st.integers(0, 7)) == 0 and not ({"ctl", "control"} & mnames):
                # members called CTL / Control are internal only in predefined (non user-range) types
                mname = draw(st.sampled_from(["CTL", "Control"]))
                mnames.add(mname.lower())
                hidden = predefined
            members.append({"name": mname, "kind": "atomic", "type": t, "array": arr, "offset": off, "hidden": hidden})
            off += es * (arr or 1)
        elif kind == "dwords":
            off = pad_to(off, 4) + gap
            arr = draw(st.integers(1, 3))
            members.append({"name": draw(ident(mnames, maxlen=8)), "kind": "atomic", "type": "DWORD", "array": arr, "offset": off, "hidden": False})
            off += 4 * arr
        elif kind == "vbools":
            # BOOL members aliasing bits of a VISIBLE integer member (as in predefined types: MESSAGE.Flags, AXIS status words)
            t = draw(st.sampled_from(["SINT", "INT", "DINT"]))
            es = ATOMIC[t][1]
            off = pad_to(off, es) + gap
            members.append({"name": draw(ident(mnames, maxlen=8)), "kind": "atomic", "type": t, "array": 0, "offset": off, "hidden": False})
            nb = draw(st.integers(1, min(6, es * 8 - 1)))
            for pos in draw(st.permutations(list(range(es * 8))))[:nb]:
                members.append({"name": draw(ident(mnames, maxlen=8)), "kind": "bit", "type": "BOOL", "array": 0, "offset": off + pos // 8, "bit": pos % 8, "hidden": False})
            off += es
        elif kind == "bools":
            off = off + gap
            host = "ZZZZZZZZZZ%s%d" % (name[:10], off)
            members.append({"name": host, "kind": "atomic", "type": "SINT", "array": 0, "offset": off, "hidden": True})
            nb = draw(st.integers(1, 8))
            bits = draw(st.permutations(list(range(8))))[:nb]
            for b in (sorted(bits) if draw(st.booleans()) else bits):
                hid = draw(st.integers(0, 11)) == 0      # a BOOL member that is itself internal ("__" name): not part of the value
                members.append({"name": ("__" if hid else "") + draw(ident(mnames, maxlen=8)), "kind": "bit", "type": "BOOL", "array": 0, "offset": off, "bit": b, "hidden": hid})
            off += 1
        else:
            structs = [x for x in nest_ok if x.get("string") is None]
            u = draw(st.sampled_from(strs if kind == "string" else (structs or nest_ok)))
            depth = max(depth, depth_of[u["name"]] + 1)
            off = pad_to(off, 8 if draw(st.booleans()) else 4) + gap
            arr = draw(st.sampled_from([0, 0, 0, 1, 2, 3]))
            members.append({"name": draw(ident(mnames, maxlen=8)), "kind": "udt", "type": u["name"], "array": arr, "offset": off, "hidden": False})
            off += u["size"] * (arr or 1)
    size = pad_to(max(off, 1), 4) + draw(st.sampled_from([0, 0, 0, 4]))
    if predefined and draw(st.booleans()):
        # predefined types may hide a control member
        pass
    depth_of[name] = depth
    return {
        "name": name, "tid": draw(fresh_tid(used_tids, predefined)), "handle": draw(st.integers(1, 0xFFFF)), "size": size,
        "string": None, "predefined": predefined, "name_has_semicolon": True if not predefined else draw(st.booleans()),
        "dim_flag": draw(st.booleans()), "members": members,
    }


WINDOW_SIZES = [460, 470, 480, 484, 488, 490, 492, 494, 496, 498, 500, 502, 504, 508, 520,
                3960, 3980, 3984, 3988, 3990, 3992, 3994, 3996, 3998, 4000, 4002, 4004, 4008, 4020]


@st.composite
def dims_for(draw, es, pool):
    """array dimensions (0-3) for an element size, aiming at the size pool"""
    if pool == "scalar":
        return []
    if pool == "small":
        nd = draw(st.sampled_from([1, 1, 2, 3]))
        return [draw(st.integers(1, 5)) for _ in range(nd)]
    if pool == "medium":
        n = max(1, draw(st.integers(100, 1500)) // es)
        nd = draw(st.sampled_from([1, 1, 2]))
        if nd == 1:
            return [n]
        a = draw(st.integers(1, 6))
        return [a, max(1, n // a)]
    if pool == "window":
        target = draw(st.sampled_from(WINDOW_SIZES)) + draw(st.integers(-3, 3)) * es
        return [max(1, target // es)]
    target = draw(st.sampled_from([4100, 6000, 8100, 9000, 12100, 1100, 1600]))
    return [max(1, target // es)]


@st.composite
def projects(draw, size_bias=None, max_tags=10, long_names=False):
    used_names, used_tids = set(), {0xFCE}
    depth_of = {"ASCIISTRING82": 0}
    udts = [dict(BUILTIN_STRING, members=[dict(m) for m in BUILTIN_STRING["members"]])]
    for _ in range(draw(st.integers(0, 2))):
        u = draw(string_udt(used_names, used_tids))
        depth_of[u["name"]] = 0
        udts.append(u)
    if draw(st.integers(0, 5)) == 0:
        u = draw(lookalike_udt(used_names, used_tids))
        depth_of[u["name"]] = 0
        udts.append(u)
    for _ in range(draw(st.integers(0, 4))):
        udts.append(draw(udt(udts, used_names, used_tids, depth_of)))
    programs = []
    prog_names = set()
    for _ in range(draw(st.sampled_from([0, 0, 1, 1, 2]))):
        pn = draw(ident(prog_names, maxlen=10)) if not long_names else draw(ident(prog_names, maxlen=40, minlen=25))
        programs.append({"name": pn, "routines": []})
    scopes = [None] + [p["name"] for p in programs]
    inst_used = {s: set() for s in scopes}

    def new_instance(scope):
        return st.one_of(st.integers(1, 200), st.integers(1, 200), st.integers(250, 260), st.integers(65530, 65540),
                         st.integers(70000, 0x7FFFFFF0)).filter(lambda i: i not in inst_used[scope])

    tags = []
    tag_names = {s: set() for s in scopes}
    ntags = draw(st.integers(1, max_tags))
    pools = ["scalar", "scalar", "small", "small", "medium", "window", "huge"] if size_bias is None else size_bias
    for i in range(ntags):
        scope = draw(st.sampled_from(scopes + [None, None]))
        name = draw(ident(tag_names[scope], maxlen=12)) if not long_names else draw(ident(tag_names[scope], maxlen=40, minlen=30))
        tkind = draw(st.sampled_from(["atomic", "atomic", "udt", "udt", "string", "boolarray"] if not long_names else ["atomic"]))
        pool = draw(st.sampled_from(pools))
        if tkind == "boolarray":
            typ = "DWORD"
            n = {"scalar": 1, "small": draw(st.integers(1, 4)), "medium": draw(st.integers(5, 40))}.get(pool) or draw(st.sampled_from([120, 123, 125, 126, 130, 998, 1000, 1003]))
            dims = [n]
        else:
            if tkind == "atomic":
                typ = draw(st.sampled_from(ATOMIC_TAG_TYPES))
            elif tkind == "string":
                typ = draw(st.sampled_from([u["name"] for u in udts if u.get("string") is not None]))
            else:
                cands = [u["name"] for u in udts if u.get("string") is None]
                typ = draw(st.sampled_from(cands)) if cands else "DINT"
            es = ATOMIC[typ][1] if typ in ATOMIC else next(u for u in udts if u["name"] == typ)["size"]
            dims = draw(dims_for(es, pool)) if typ != "BOOL" else []   # BOOL arrays exist only as DWORD arrays
        inst = draw(new_instance(scope))
        inst_used[scope].add(inst)
        tags.append({"name": name, "scope": scope, "type": typ, "dims": dims, "instance": inst,
                     "access": draw(st.sampled_from([0, 0, 2, 3])), "alias": draw(st.integers(0, 5)) == 0})
        if typ == "BOOL":
            tags[-1]["bitpos"] = draw(st.sampled_from([0, 0, 1, 3, 7, 2, 5]))
    # module tags (kept by the library as user tags)
    struct_types = [u["name"] for u in udts if u.get("string") is None]
    for k in range(draw(st.sampled_from([0, 0, 1, 2]))):
        mod = draw(st.sampled_from(["Local", "Rack_A", "ENBT", "HeatMap", "LineCxn", "IOMap"]))   # module names are ordinary identifiers
        form = draw(st.sampled_from(["%s:%s", "%s:%d:%s"]))
        # connection of the module: input / output / configuration / status, numbered (I1, O2) and the safety pair SI / SO
        letter = draw(st.sampled_from(["I", "O", "C", "S", "I", "O", "I1", "O1", "I2", "SI", "SO"]))
        name = form % ((mod, letter) if form.count("%") == 2 else (mod, draw(st.integers(0, 16)), letter))
        if name.lower() in tag_names[None]:
            continue
        tag_names[None].add(name.lower())
        typ = draw(st.sampled_from(struct_types + ["DINT", "INT"]))
        inst = draw(new_instance(None))
        inst_used[None].add(inst)
        tags.append({"name": name, "scope": None, "type": typ, "dims": [], "instance": inst, "access": 0, "alias": False})
    for p in programs:
        inst = draw(new_instance(None))
        inst_used[None].add(inst)
        p["instance"] = inst
        for r in range(draw(st.integers(0, 2))):
            ri = draw(new_instance(p["name"]))
            inst_used[p["name"]].add(ri)
            p["routines"].append({"name": "R%d_%s" % (r, p["name"][:4]), "instance": ri})
    # symbols that must be filtered out
    extras = []
    for k in range(draw(st.integers(0, 4))):
        scope = draw(st.sampled_from(scopes))
        form = draw(st.sampled_from(["Task:T%d", "Map:M%d", "Cxn:C%d", "__sys%d", "Sys%d", "Odd:thing%d"]))
        name = form % k
        inst = draw(new_instance(scope))
        inst_used[scope].add(inst)
        if form == "Sys%d":
            styp = draw(st.sampled_from([0x10C4, 0x10C3, 0x1FCE, 0x9123]))  # bit 12: system symbol
        elif form.startswith("Task"):
            styp = 0x1070
        else:
            styp = draw(st.sampled_from([0x00C4, 0x10C4, 0x1069]))
        extras.append({"name": name, "scope": scope, "instance": inst, "symbol_type": styp,
                       "sc": draw(st.sampled_from([0, 0x04000000]))})
    if programs and draw(st.integers(0, 5)) == 0:
        # a program copied and pasted: a second program with the very same symbol table (names AND instance ids - ids are only unique
        # within a scope)
        src = draw(st.sampled_from(programs))
        cname = (src["name"][:34] + "_copy")
        if cname.lower() not in {p_["name"].lower() for p_ in programs} and any(t["scope"] == src["name"] for t in tags):
            ci = draw(new_instance(None))
            inst_used[None].add(ci)
            programs.append({"name": cname, "instance": ci, "routines": [dict(r) for r in src["routines"]]})
            tags += [dict(t, scope=cname) for t in tags if t["scope"] == src["name"]]
    return {"udts": udts, "tags": tags, "programs": programs, "extras": extras}


def expand_memory(project, seeds):
    """Deterministic expansion of short drawn seeds into full tag memory; neighbouring array elements
    differ by construction; string LEN fields are forced into [0, capacity]."""
    p = project if isinstance(project, Project) else Project(project)
    mem = {}
    for t in p.data["tags"]:
        key = f"{t.get('scope') or ''}/{t['name']}"
        size = p.tag_size(t)
        seed = seeds.get(key) or b"\x5a"
        es = p.elem_size(t["type"])
        L = len(seed)
        buf = bytearray(size)
        for i in range(size):
            e = i // es
            buf[i] = (seed[i % L] ^ ((e * 0x9D + (e >> 8) * 0x35 + (i % es) * 0x11) if size > L else 0)) & 0xFF
        fix_strings(p, t["type"], buf, p.n_elements(t))
        mem[key] = bytes(buf)
    return mem


def fix_strings(p, type_, buf, n, base=0):
    if type_ in ATOMIC:
        return
    u = p.udts[type_]
    for e in range(n):
        b = base + e * u["size"]
        if u.get("string") is not None:
            raw = struct.unpack_from("<I", buf, b)[0]
            struct.pack_into("<I", buf, b, raw % (u["string"] + 1))
            continue
        for m in u["members"]:
            if m["kind"] == "udt":
                fix_strings(p, m["type"], buf, m["array"] or 1, b + m["offset"])


@st.composite
def memory_seeds(draw, project_data):
    p = Project(project_data)
    seeds = {}
    for t in project_data["tags"]:
        key = f"{t.get('scope') or ''}/{t['name']}"
        size = p.tag_size(t)
        n = size if size <= 48 else draw(st.sampled_from([3, 7, 16, 31]))
        seeds[key] = draw(st.binary(min_size=n, max_size=n))
    return seeds


@st.composite
def target_cfgs(draw, allow_micro800=True):
    fw = draw(st.sampled_from([16, 17, 18, 19, 20, 21, 24, 32, 33]))
    micro = allow_micro800 and draw(st.integers(0, 9)) == 0
    ident_ = {
        "major": fw, "minor": draw(st.integers(0, 99)),
        "product_name": draw(st.sampled_from(["2080-LC50-48QWB", "2080-LC30"])) if micro else draw(st.sampled_from(["1756-L83E/B", "1769-L33ER", "5069-L310ER", "X"])),
        "serial": draw(st.integers(0, 0xFFFFFFFF)),
    }
    bridge = None
    if not micro and draw(st.integers(0, 3)) == 0:
        # the controller sits behind a bridge module (its own identity and firmware, typically on the other side of every threshold)
        bridge = {"major": draw(st.sampled_from([3, 11, 17, 18, 20, 21, 33])), "minor": draw(st.integers(0, 99)),
                  "product_name": draw(st.sampled_from(["1756-EN2T/D", "1756-ENBT/A", "1756-EN4TR"])), "product_type": 12, "serial": draw(st.integers(0, 0xFFFFFFFF))}
    fo = draw(st.sampled_from(["large", "large", "std"]))
    conn = 4000 if fo == "large" else 500
    cap = draw(st.one_of(st.none(), st.none(), st.integers(16, conn), st.sampled_from([16, 17, 20, 33, 100, 101, 256])))
    return {
        "identity": ident_,
        "bridge_identity": bridge,
        "session_handle": draw(st.one_of(st.integers(1, 0xFFFFFFFF), st.sampled_from([1, 0xFFFFFFFF, 0x80000000, 0x100]))),
        "conn_ids": [draw(st.one_of(st.integers(1, 0xFFFFFFFF), st.sampled_from([1, 0xFFFFFFFF, 0x01000000, 0, 0])))],   # any 32-bit id, 0 included
        "fo_policy": fo,
        "fo_refuse": draw(st.sampled_from([[0x01, [0x0109]], [0x08, []], [0x01, [0x0100]], [0x05, []]])),
        "page_size": draw(st.one_of(st.integers(1, 600), st.sampled_from([1, 40, 100, 480]))),
        "tmpl_frag": draw(st.one_of(st.integers(1, 600), st.sampled_from([1, 2, 7, 8, 9, 100, 480]))),
        "read_cap": cap,
        "bool_true": draw(st.sampled_from([0x01, 0xFF])),
        "frag_round": draw(st.sampled_from(["element", "byte", "any"])),
        "multi_room": draw(st.one_of(st.none(), st.none(), st.none(), st.integers(60, conn), st.integers(conn - 40, conn))),
        "multi_partial_status": draw(st.sampled_from([0x1E, 0x06])),
        "empty_first_fragment": draw(st.integers(0, 7)) == 0,
        "plc_name": draw(st.sampled_from(["MainController", "P", "", "Line_3_PLC"])),
        "expected_route": b"" if micro else b"\x01\x00",
    }
