"""Reference EPATH parser (strict, CIP Vol 1 Appendix C) and reference connection-path grammar.

Imports nothing from pycomm3.
"""
import struct

LOGICAL_TYPES = {0: "class", 1: "instance", 2: "member", 3: "connpoint", 4: "attribute", 5: "special", 6: "service"}
PORT_NAMES = {  # documented port aliases (PortSegment.port_segments documentation / getting started)
    "backplane": 1, "bp": 1, "enet": 2, "dhrio-a": 2, "dhrio-b": 3, "dnet": 2, "cnet": 2, "dh485-a": 2, "dh485-b": 3,
}


class PathError(Exception):
    pass


def parse_epath(b, padded=True):
    """Strictly parse a padded EPATH (no length prefix).  Returns a list of tuples:
       ("class"|"instance"|"member"|"connpoint"|"attribute", value, width_bytes)
       ("symbol", name_bytes)
       ("port", port_number, link_bytes)
    """
    b = bytes(b)
    if padded and len(b) % 2:
        raise PathError(f"padded EPATH has odd length {len(b)}")
    out = []
    i = 0
    n = len(b)
    while i < n:
        seg = b[i]
        stype = seg >> 5
        if stype == 1:  # logical segment
            ltype = (seg >> 2) & 7
            fmt = seg & 3
            if ltype not in LOGICAL_TYPES or ltype > 4:
                raise PathError(f"logical type {ltype} at {i} not expected")
            if fmt == 0:
                if i + 2 > n:
                    raise PathError("truncated 8-bit logical segment")
                out.append((LOGICAL_TYPES[ltype], b[i + 1], 1))
                i += 2
            elif fmt == 1:
                if i + 4 > n:
                    raise PathError("truncated 16-bit logical segment")
                if b[i + 1] != 0:
                    raise PathError(f"16-bit logical segment at {i}: pad byte is {b[i + 1]:#x}")
                out.append((LOGICAL_TYPES[ltype], struct.unpack_from("<H", b, i + 2)[0], 2))
                i += 4
            elif fmt == 2:
                if i + 6 > n:
                    raise PathError("truncated 32-bit logical segment")
                if b[i + 1] != 0:
                    raise PathError(f"32-bit logical segment at {i}: pad byte is {b[i + 1]:#x}")
                out.append((LOGICAL_TYPES[ltype], struct.unpack_from("<I", b, i + 2)[0], 4))
                i += 6
            else:
                raise PathError(f"logical segment {seg:#04x} at {i}: reserved logical format 0b11")
        elif seg == 0x91:  # ANSI extended symbol segment
            if i + 2 > n:
                raise PathError("truncated symbolic segment")
            ln = b[i + 1]
            if ln == 0:
                raise PathError("empty symbolic segment")
            end = i + 2 + ln
            if end > n:
                raise PathError("symbolic segment longer than the path")
            name = b[i + 2:end]
            if ln % 2:
                if end >= n or b[end] != 0:
                    raise PathError(f"odd-length symbol {name!r} not followed by a 0x00 pad")
                end += 1
            out.append(("symbol", name))
            i = end
        elif stype == 0:  # port segment
            port = seg & 0x0F
            ext = bool(seg & 0x10)
            if port == 0:
                raise PathError("port 0 is reserved")
            # port identifier 15: the real (16-bit) identifier follows the optional link-address-size byte (CIP Vol 1, C-1.4.1)
            xp = 2 if port == 15 else 0
            if ext:
                if i + 2 + xp > n:
                    raise PathError("truncated extended-link port segment")
                ln = b[i + 1]
                if xp:
                    port = b[i + 2] | (b[i + 3] << 8)
                    if port == 0:
                        raise PathError("extended port identifier 0")
                end = i + 2 + xp + ln
                if end > n:
                    raise PathError("port segment link address longer than the path")
                link = b[i + 2 + xp:end]
                if (2 + xp + ln) % 2:
                    if end >= n or b[end] != 0:
                        raise PathError("odd-length port segment not followed by a 0x00 pad")
                    end += 1
                out.append(("port", port, link))
                i = end
            else:
                if i + 2 + xp > n:
                    raise PathError("truncated port segment")
                if xp:
                    port = b[i + 1] | (b[i + 2] << 8)
                    if port == 0:
                        raise PathError("extended port identifier 0")
                out.append(("port", port, b[i + 1 + xp:i + 2 + xp]))
                i += 2 + xp
        else:
            raise PathError(f"unexpected segment byte {seg:#04x} at offset {i}")
    return out


def parse_sized_epath(b, pos=0, pad_after_size=False):
    """<word count u8> [<pad 0x00>] <path>; returns (segments, raw_path_bytes, new_pos)"""
    if pos >= len(b):
        raise PathError("missing path size")
    words = b[pos]
    pos += 1
    if pad_after_size:
        if pos >= len(b) or b[pos] != 0:
            raise PathError("reserved byte after path size is missing or non-zero")
        pos += 1
    end = pos + 2 * words
    if end > len(b):
        raise PathError(f"path size {words} words exceeds the available {len(b) - pos} bytes")
    raw = bytes(b[pos:end])
    return parse_epath(raw), raw, end


# ---------------------------------------------------------------------------------------------
# reference encoders (what a correct client must put on the wire)
# ---------------------------------------------------------------------------------------------
def enc_logical(kind, value):
    t = {"class": 0, "instance": 1, "member": 2, "connpoint": 3, "attribute": 4}[kind]
    base = 0x20 | (t << 2)
    if value <= 0xFF:
        return bytes([base, value])
    if value <= 0xFFFF:
        return bytes([base | 1, 0]) + struct.pack("<H", value)
    return bytes([base | 2, 0]) + struct.pack("<I", value)


def enc_symbol(name):
    nb = name.encode("ascii") if isinstance(name, str) else bytes(name)
    return bytes([0x91, len(nb)]) + nb + (b"\x00" if len(nb) % 2 else b"")


def enc_port(port, link):
    """port: number 1..65535 (15 and above use the extended port identifier); link: int slot 0..255 or str (IPv4 / host text) or bytes"""
    if isinstance(link, int):
        lb = bytes([link])
    elif isinstance(link, str):
        lb = link.encode("ascii")
    else:
        lb = bytes(link)
    first, xp = (port, b"") if port < 15 else (15, bytes([port & 0xFF, port >> 8]))   # 15: extended port identifier follows
    if len(lb) == 1:
        return bytes([first]) + xp + lb
    seg = bytes([first | 0x10, len(lb)]) + xp + lb
    return seg + (b"\x00" if len(seg) % 2 else b"")


def enc_route(hops):
    return b"".join(enc_port(p, l) for p, l in hops)


# ---------------------------------------------------------------------------------------------
# connection path grammar
# ---------------------------------------------------------------------------------------------
def _dec(s):
    """a number of the grammar: one or more ASCII digits (no sign, no underscore, no blanks, no other scripts' digits)"""
    return s.isascii() and s.isdigit()


def is_ipv4(s):
    parts = s.split(".")
    return len(parts) == 4 and all(_dec(p) and len(p) <= 3 and int(p) <= 255 and (p == "0" or not p.startswith("0")) for p in parts)


def ref_parse_path(path, auto_slot):
    """Reference reading of the documented grammar.  Returns (host, tcp_port|None, [(port_no, link)]) with link
    an int slot or an IPv4 string; raises PathError for strings outside the grammar."""
    norm = path.replace("\\", "/").replace(",", "/")
    host, *segs = norm.split("/")
    port = None
    if ":" in host:
        host, p = host.split(":", 1)
        if not _dec(p):
            raise PathError("non-numeric TCP port")
        port = int(p)
        if not 0 < port < 65535:
            raise PathError("TCP port out of range")
    if not segs:
        return host, port, ([(1, 0)] if auto_slot else [])
    if len(segs) == 1 and auto_slot:
        # the address/slot shortcut: the single segment is a slot number of the local backplane (an address there is an odd segment)
        if not _dec(segs[0]):
            raise PathError("address/slot shortcut with something that is not a slot number")
        return host, port, [(1, _link(segs[0]))]
    if len(segs) % 2:
        raise PathError("odd number of route segments")
    hops = []
    for i in range(0, len(segs), 2):
        pid, link = segs[i], segs[i + 1]
        if _dec(pid):
            pn = int(pid)
            if not 1 <= pn <= 65535:
                raise PathError("port number out of range")
        elif pid in PORT_NAMES:
            pn = PORT_NAMES[pid]
        else:
            raise PathError(f"unknown port name {pid!r}")
        hops.append((pn, _link(link)))
    return host, port, hops


def _link(s):
    if _dec(s):
        v = int(s)
        if v > 255:
            raise PathError("slot/link number out of range")
        return v
    if is_ipv4(s):
        return s
    raise PathError(f"link {s!r} is neither a slot number nor an IPv4 address")
