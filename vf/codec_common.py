"""Shared by C06/C07/C08: type grammar, value generators, descriptor -> pycomm3 type, API adapters."""
import struct

from hypothesis import strategies as st

from . import refcodec as R
from .refcodec import T

ELEM_INTS = ["SINT", "INT", "DINT", "LINT", "USINT", "UINT", "UDINT", "ULINT",
             "STIME", "DATE", "TIME_OF_DAY", "FTIME", "LTIME", "ITIME", "TIME"]
ELEM_FLOATS = ["REAL", "LREAL"]
ELEM_BITS = ["BYTE", "WORD", "DWORD", "LWORD", "ENGUNIT"]
ELEM_STR = ["STRING", "SHORT_STRING", "LOGIX_STRING", "STRING2"]
LEN_TYPES = ["USINT", "UINT", "UDINT", "ULINT", "SINT", "INT"]

_cache = {}


def key(t):
    return R_json(t)


def R_json(t):
    import json
    return json.dumps(t, sort_keys=True)


def build(t):
    """descriptor -> pycomm3 type (class); cached."""
    k = R_json(t)
    if k in _cache:
        return _cache[k]
    import pycomm3
    from pycomm3 import cip
    from pycomm3 import custom_types as ct

    kind = t["k"]
    if kind in ("array",):
        el = build(t["el"])
        ln = t["len"]
        if isinstance(ln, dict):
            ln = getattr(cip, ln["lt"])
        typ = cip.Array(ln, el) if t.get("via", "factory") == "factory" else el[ln]
    elif kind == "struct":
        ms = []
        for name, mt in t["members"]:
            c = build(mt)
            if mt["k"] == "nbytes":
                ms.append(cip.n_bytes(mt["n"], name or ""))
            elif name is None:
                ms.append(c)
            else:
                ms.append(c(name))
        typ = cip.Struct(*ms)
    elif kind == "nbytes":
        typ = type(cip.n_bytes(t["n"]))
    elif kind == "ip":
        typ = ct.IPAddress
    elif kind == "revision":
        typ = ct.Revision
    elif kind == "modid":
        typ = ct.ModuleIdentityObject
    elif kind == "listid":
        typ = ct.ListIdentityObject
    elif kind == "fixedstr":
        typ = ct.FixedSizeString(t["size"]) if t.get("cap") is None else ct.FixedSizeString(t["size"], capacity_=t["cap"])
    elif kind == "structtag":
        ms = []
        for name, mt, off in t["members"]:
            c = build(mt)
            ms.append((c(name), off))
        typ = ct.StructTag(*ms, bit_members={n: tuple(v) for n, v in t["bits"].items()},
                           private_members=set(t.get("private", ())), struct_size=t["size"])
    else:
        typ = getattr(cip, kind)
    _cache[k] = typ
    return typ


def lib_encode(t, v):
    """Call the library's encoder the way its API documents it for this kind of type."""
    typ = build(t)
    k = t["k"]
    if k == "STRINGN":
        return typ.encode(v, t.get("cs", 1))
    if k == "STRINGI":
        from pycomm3 import cip
        return typ.encode(*[(s, getattr(cip, stn), lang, cset) for (s, stn, lang, cset) in v])
    if k == "DATE_AND_TIME":
        return typ.encode(*v)
    return typ.encode(v)


def lib_decode(t, buf):
    return build(t).decode(buf)


def to_lib_value(t, v):
    """reference value -> value in the shape the library returns from decode (for comparisons)."""
    return v


# ------------------------------------------------------------------------------------------------
# type grammar
# ------------------------------------------------------------------------------------------------
def elementary():
    return st.one_of(
        st.just(T("BOOL")),
        st.sampled_from(ELEM_INTS).map(T),
        st.sampled_from(ELEM_FLOATS).map(T),
        st.sampled_from(ELEM_BITS).map(T),
    )


def stringish(nested=False):
    # inside a struct/array the library can only call STRINGN.encode(value) (character size 1)
    return st.one_of(
        st.sampled_from(ELEM_STR).map(T),
        st.sampled_from([1] if nested else [1, 2, 4]).map(lambda cs: T("STRINGN", cs=cs)),
    )


def leaf(nested=False):
    opts = [elementary(), elementary(), stringish(nested),
            st.integers(1, 9).map(lambda n: T("nbytes", n=n)),
            st.just(T("ip")), st.just(T("revision")),
            st.integers(1, 12).map(lambda n: T("fixedstr", size=n)), fixedstr_padded()]
    return st.one_of(*opts)


@st.composite
def fixedstr_padded(draw):
    """a Logix string type as the driver builds it: DATA padded to a multiple of 4, capacity = the declared length (<= size).
    Sizes are few on purpose, so that types of the same size and different capacity meet in one process."""
    size = draw(st.sampled_from([4, 8, 12, 84]))
    return T("fixedstr", size=size, cap=draw(st.integers(size - 3, size)))


NAMES = ["a", "b", "c", "d", "e", "f", "g", "h"]


@st.composite
def types(draw, depth=2, top=True, derived_nested=False):
    """T ::= leaf | T[n] | T[lenType] | T[None] (outermost only) | Struct(...)"""
    if depth == 0:
        return draw(leaf(nested=not top))
    kinds = ["leaf", "leaf", "array", "struct", "struct"]
    if top or derived_nested:
        kinds.append("derived")
    if top:
        kinds += ["unbound", "special"]
    kind = draw(st.sampled_from(kinds))
    if kind == "leaf":
        return draw(leaf(nested=not top))
    if kind == "special":
        return draw(st.sampled_from([T("STRINGI"), T("DATE_AND_TIME"), T("nbytes", n=-1)]))
    if kind == "array":
        el = draw(types(depth=depth - 1, top=False, derived_nested=derived_nested))
        return T("array", len=draw(st.integers(1, 5)), el=el, via=draw(st.sampled_from(["factory", "index"])))
    if kind == "derived":
        el = draw(types(depth=depth - 1, top=False, derived_nested=derived_nested))
        return T("array", len={"lt": draw(st.sampled_from(LEN_TYPES))}, el=el, via=draw(st.sampled_from(["factory", "index"])))
    if kind == "unbound":
        el = draw(types(depth=depth - 1, top=False, derived_nested=derived_nested))
        return T("array", len=None, el=el, via=draw(st.sampled_from(["factory", "index"])))
    n = draw(st.integers(1, 5))
    names = list(draw(st.permutations(NAMES)))[:n]
    unnamed_at = draw(st.one_of(st.none(), st.integers(0, n - 1)))
    members = []
    for i in range(n):
        mt = draw(types(depth=depth - 1, top=False, derived_nested=derived_nested))
        name = None if unnamed_at == i else names[i]
        members.append([name, mt])
    return T("struct", members=members)


# ------------------------------------------------------------------------------------------------
# values
# ------------------------------------------------------------------------------------------------
def int_values(name):
    lo, hi = R.INT_RANGE[name]
    bits = R.INTS[name][1] * 8
    specials = [lo, lo + 1, -1 if lo < 0 else 0, 0, 1, hi - 1, hi, hi // 2, 0x7F, 0x80, 0xFF, 0x100, 0x7FFF, 0x8000, 0xFFFF,
                0x10000, 0x01020304, 0x0102030405060708]
    specials = [x for x in specials if lo <= x <= hi]
    onebit = st.integers(0, bits - 1).map(lambda i: (1 << i) if (1 << i) <= hi else lo)
    return st.one_of(st.sampled_from(specials), onebit, st.integers(lo, hi))


LATIN1 = st.characters(min_codepoint=0, max_codepoint=255)
BMP = st.characters(min_codepoint=0, max_codepoint=0xFFFF, exclude_categories=["Cs"])
ASCII = st.characters(min_codepoint=0, max_codepoint=127)
ANY32 = st.characters(exclude_categories=["Cs"])


def str_values(alpha, maxlen):
    sizes = st.one_of(st.integers(0, 3), st.integers(0, min(maxlen, 40)),
                      st.sampled_from([maxlen - 1, maxlen]) if maxlen <= 300 else st.integers(0, 300))
    plain = sizes.flatmap(lambda n: st.text(alphabet=alpha, min_size=n, max_size=n))
    if alpha in (BMP, ANY32):
        # characters that codecs give a meaning of their own at the start of a text: byte-order marks, NUL; they are characters of
        # the value like any other
        marked = st.tuples(st.sampled_from(["\ufeff", "\ufffe", "\x00", "\ufeff\ufeff"]), plain).map(lambda t: (t[0] + t[1])[:maxlen])
        return st.one_of(plain, plain, plain, marked)
    return plain


@st.composite
def values(draw, t):
    k = t["k"]
    if k == "BOOL":
        return draw(st.booleans())
    if k in R.INTS:
        return draw(int_values(k))
    if k == "REAL":
        return draw(st.one_of(st.floats(width=32), st.sampled_from([0.0, -0.0, 1.5, float("inf"), float("-inf"), float("nan"), 1e-45, 3.4028234663852886e38])))
    if k == "LREAL":
        return draw(st.one_of(st.floats(), st.sampled_from([0.0, -0.0, float("inf"), float("nan"), 5e-324, 1.7976931348623157e308])))
    if k in R.BITS:
        n = R.BITS[k] * 8
        return draw(st.lists(st.booleans(), min_size=n, max_size=n))
    if k == "SHORT_STRING":
        return draw(str_values(LATIN1, 255))
    if k in ("STRING", "LOGIX_STRING"):
        return draw(str_values(LATIN1, 65535))
    if k == "STRING2":
        return draw(str_values(BMP, 65535))
    if k == "STRINGN":
        cs = t.get("cs", 1)
        return draw(str_values({1: LATIN1, 2: BMP, 4: ANY32}[cs], 65535))   # one byte per character: every 8-bit character
    if k == "STRINGI":
        n = draw(st.integers(0, 4))
        out = []
        for _ in range(n):
            stn = draw(st.sampled_from(["STRING", "STRING2", "STRINGN", "SHORT_STRING"]))
            s = draw(values(T(stn) if stn != "STRINGN" else T("STRINGN", cs=1)))
            lang = draw(st.sampled_from(["eng", "fra", "spa", "ita", "deu", "jpn", "por", "zho", "rus", "abc", "ZZZ"]))
            cset = draw(st.sampled_from([4, 5, 12, 1000, 1001, 0, 65535]))
            out.append([s, stn, lang, cset])
        return out
    if k == "DATE_AND_TIME":
        return [draw(int_values("UDINT")), draw(int_values("UINT"))]
    if k == "nbytes":
        n = t["n"]
        if n == -1:
            return draw(st.binary(min_size=1, max_size=20))
        return draw(st.binary(min_size=n, max_size=n))
    if k == "array":
        ln = t["len"]
        el = t["el"]
        mult = R.BITS[el["k"]] * 8 if el["k"] in R.BITS else 1
        if isinstance(ln, int):
            n = ln + draw(st.sampled_from([0, 0, 0, 1, 3]))  # over-long inputs are truncated
        elif isinstance(ln, dict):
            lo, hi = R.INT_RANGE[ln["lt"]]
            n = draw(st.integers(0, min(6, hi)))
        else:
            n = draw(st.integers(0, 6))
        if mult > 1:
            return [b for _ in range(n) for b in draw(values(el))]
        return [draw(values(el)) for _ in range(n)]
    if k == "struct":
        return {("" if name is None else name): draw(values(mt)) for name, mt in t["members"]}
    if k == "ip":
        return ".".join(str(x) for x in draw(st.lists(st.integers(0, 255), min_size=4, max_size=4)))
    if k == "revision":
        return {"major": draw(st.integers(0, 255)), "minor": draw(st.integers(0, 255))}
    if k == "fixedstr":
        return draw(st.integers(0, t["size"]).flatmap(lambda n: st.text(alphabet=LATIN1, min_size=n, max_size=n)))
    if k == "modid":
        return {
            "vendor": draw(st.integers(0, 65535)), "product_type": draw(st.integers(0, 65535)),
            "product_code": draw(st.integers(0, 65535)), "major": draw(st.integers(0, 255)),
            "minor": draw(st.integers(0, 255)), "status": draw(st.binary(min_size=2, max_size=2)),
            "serial": draw(st.one_of(st.integers(0, 0xFFFFFFFF), st.integers(0, 0xFFFF))),
            "product_name": draw(str_values(LATIN1, 255)),
        }
    raise KeyError(k)


def expected_after_roundtrip(t, v):
    """The value decode(encode(v)) must return, per the property statement."""
    k = t["k"]
    if k == "REAL":
        return R.f32(v)
    if k == "array":
        el = t["el"]
        ln = t["len"]
        mult = R.BITS[el["k"]] * 8 if el["k"] in R.BITS else 1
        if isinstance(ln, int):
            v = v[: ln * mult]
        if mult > 1:
            return list(v)
        return [expected_after_roundtrip(el, x) for x in v]
    if k == "struct":
        return {name: expected_after_roundtrip(mt, v[name]) for name, mt in t["members"] if name}
    if k == "STRINGI":
        return ([s for s, _, _, _ in v], [l for _, _, l, _ in v], [c for _, _, _, c in v])
    if k == "DATE_AND_TIME":
        return tuple(v)
    if k == "fixedstr":
        return v[: t["cap"]] if t.get("cap") is not None else v
    if k == "structtag":
        return R.dec(t, R.enc(t, v), 0)[0]   # the reference codec's view: arrays cut to their length, REALs rounded, strings cut to capacity
    return v


def struct_as_sequence(t, v):
    return [v["" if name is None else name] for name, mt in t["members"]]


def struct_as_dict(t, v):
    """dict form accepted by Struct.encode: unnamed member under key None (docs)."""
    return {(None if name is None else name): v["" if name is None else name] for name, mt in t["members"]}


def norm_value_for_lib(t, v):
    """Convert generator value (JSON-able) into what the library's encode wants."""
    k = t["k"]
    if k == "struct":
        # unnamed members are keyed None (docs); an unnamed n_bytes member carries the name "" (n_bytes default)
        return {(name if name is not None else ("" if mt["k"] == "nbytes" else None)):
                norm_value_for_lib(mt, v["" if name is None else name]) for name, mt in t["members"]}
    if k == "array":
        el = t["el"]
        if el["k"] in R.BITS:
            return list(v)
        return [norm_value_for_lib(el, x) for x in v]
    if k == "modid":
        return v
    return v


def nontrivial_type(t):
    return not (t["k"] in R.INTS)


# ------------------------------------------------------------------------------------------------
# template-style layouts (StructTag / FixedSizeString) for C07/C08
# ------------------------------------------------------------------------------------------------
ATOMIC_SIZES = {"SINT": 1, "INT": 2, "DINT": 4, "LINT": 8, "USINT": 1, "UINT": 2, "UDINT": 4, "ULINT": 8,
                "REAL": 4, "LREAL": 8, "BOOL": 1, "DWORD": 4}


def type_size(t):
    k = t["k"]
    if k in ATOMIC_SIZES:
        return ATOMIC_SIZES[k]
    if k in R.BITS:
        return R.BITS[k]
    if k == "array":
        return t["len"] * type_size(t["el"])
    if k == "fixedstr":
        return 4 + t["size"]
    if k == "structtag":
        return t["size"]
    raise KeyError(k)


@st.composite
def structtags(draw, depth=1):
    """A Logix-template-like layout: members at increasing offsets with optional gaps, BOOL members
    packed into hidden SINT hosts, DWORD-backed BOOL arrays, nested structtags, fixed strings."""
    n = draw(st.integers(1, 6))
    members, bits, private = [], {}, []
    off = 0
    names = iter(["m%d" % i for i in range(40)])
    for i in range(n):
        kind = draw(st.sampled_from(["atomic", "atomic", "array", "bools", "dwords", "string"] + (["nested"] if depth else [])))
        off += draw(st.sampled_from([0, 0, 0, 1, 2, 4]))
        if kind == "atomic":
            mt = T(draw(st.sampled_from(["SINT", "INT", "DINT", "LINT", "USINT", "UINT", "UDINT", "ULINT", "REAL", "LREAL"])))
        elif kind == "array":
            mt = T("array", len=draw(st.integers(1, 4)),
                   el=T(draw(st.sampled_from(["SINT", "INT", "DINT", "LINT", "REAL"]))), via="factory")
        elif kind == "dwords":
            mt = T("array", len=draw(st.integers(1, 2)), el=T("DWORD"), via="factory")
        elif kind == "string":
            mt = draw(st.one_of(st.integers(1, 12).map(lambda n: T("fixedstr", size=n)), fixedstr_padded()))
        elif kind == "nested":
            mt = draw(structtags(depth=depth - 1))
        elif draw(st.integers(0, 2)) == 0:
            # BOOL members aliasing bits of a VISIBLE integer member (predefined types: MESSAGE.Flags, AXIS status words)
            ht = draw(st.sampled_from(["SINT", "INT", "DINT", "USINT", "UINT", "UDINT"]))
            hs = {"SINT": 1, "USINT": 1, "INT": 2, "UINT": 2, "DINT": 4, "UDINT": 4}[ht]
            members.append([next(names), T(ht), off])
            nb = draw(st.integers(1, min(6, hs * 8 - 1)))
            for pos in draw(st.permutations(range(hs * 8)))[:nb]:
                bits[next(names)] = [off + pos // 8, pos % 8]
            off += hs
            continue
        else:  # packed BOOL members in a hidden host byte
            host = "ZZZZZZZZZZhost%d" % i
            members.append([host, T("SINT"), off])
            private.append(host)
            nb = draw(st.integers(1, 8))
            for b in draw(st.permutations(range(8)))[:nb]:
                bname = next(names)
                if draw(st.integers(0, 9)) == 0:       # an internal BOOL member: decoded values do not carry it, encode must not ask for it
                    bname = "__" + bname
                    private.append(bname)
                bits[bname] = [off, b]
            off += 1
            continue
        name = next(names)
        if draw(st.integers(0, 9)) == 0:
            name = "__hidden%d" % i
            private.append(name)
        members.append([name, mt, off])
        off += type_size(mt)
    size = off + draw(st.sampled_from([0, 0, 1, 3]))
    return T("structtag", size=max(size, 1), members=members, bits=bits, private=private)


@st.composite
def structtag_values(draw, t):
    v = {}
    private = set(t["private"])
    for name, mt, off in t["members"]:
        if name in private:
            continue
        if mt["k"] == "structtag":
            v[name] = draw(structtag_values(mt))
        else:
            v[name] = draw(values(mt))
    consistent = draw(st.booleans())
    for name, (boff, bit) in t["bits"].items():
        if name in private:
            continue
        v[name] = draw(st.booleans())
        if not consistent:
            # the two views of one bit disagree (a decoded value in which the caller changed the BOOL member only): the BOOL member is
            # what ends up in the host bit
            continue
        for mname, mt, moff in t["members"]:
            if mname in v and mt["k"] in ("SINT", "INT", "DINT", "USINT", "UINT", "UDINT") and moff <= boff < moff + type_size(mt):
                # a BOOL aliasing a visible integer member: keep the two views of the same bit consistent
                v[name] = bool(v[mname] >> (8 * (boff - moff) + bit) & 1)
    return v


def boundary_string_cases():
    """(type, value) pairs at the length boundaries of every string type's prefix (deterministic)"""
    out = []
    lens = [0, 1, 127, 128, 255, 256, 32767, 32768, 40000, 65534, 65535]
    for name, maxlen in (("SHORT_STRING", 255), ("STRING", 65535), ("STRING2", 65535), ("LOGIX_STRING", 70000)):
        for n in lens + ([70000] if name == "LOGIX_STRING" else []):
            if n <= maxlen:
                ch = "\u00e9\u0101A"[0 if name != "STRING2" else 1]
                out.append((T(name), ("A" * (n - 1) + ch) if n else ""))
    for cs in (1, 2, 4):
        for n in lens:
            out.append((T("STRINGN", cs=cs), ("b" * (n - 1) + {1: "z", 2: "\u0101", 4: "\U0001F600"}[cs]) if n else ""))
    return out


def boundary_array_cases():
    """(type, value) pairs at the boundaries of every array length prefix, and long fixed / unbounded arrays (deterministic)"""
    out = []
    lims = {"USINT": 255, "SINT": 127, "UINT": 65535, "INT": 32767, "UDINT": 70000, "ULINT": 70000}
    for lt, hi in lims.items():
        for n in sorted({0, 1, 127, 128, 255, 256, 32767, 32768, 65535, 65536, 70000}):
            if n > hi:
                continue
            for el, val in (("USINT", lambda i: (i * 7 + 3) & 0xFF), ("INT", lambda i: ((i * 257) & 0xFFFF) - 32768)):
                if n > 300 and el == "INT" and lt not in ("UINT", "INT"):
                    continue
                out.append((T("array", len={"lt": lt}, el=T(el), via="factory"), [val(i) for i in range(n)]))
    for n in (255, 256, 257, 65535, 65536):
        out.append((T("array", len=n, el=T("USINT"), via="factory"), [(i * 5 + 1) & 0xFF for i in range(n)]))
        out.append((T("array", len=None, el=T("UINT"), via="factory"), [(i * 13) & 0xFFFF for i in range(n)]))
    out.append((T("array", len={"lt": "USINT"}, el=T("BYTE"), via="factory"), [bool((i // 3) & 1) for i in range(255 * 8)]))
    return out

