"""Hypothesis strategies for read/write request lists, built from the project (valid by construction),
plus the invalid classes named by C03.  Requests are structured data; `render` makes the string.

request = {"scope", "tag", "idx": [..]|None, "path": [[member, idx|None], ...], "bit": int|None,
           "count": int|None, "invalid": None|<class>}            (+ "value" for writes)
"""
from hypothesis import strategies as st

from .project import ATOMIC, INT_BITS, Project


def _respell(n, how):
    """the number n written in a way int() accepts but the tag syntax does not know"""
    d = str(n)
    if how == "arabic":
        return "".join(chr(0x0660 + int(c)) for c in d)
    if how == "fullwidth":
        return "".join(chr(0xFF10 + int(c)) for c in d)
    if how == "underscore":
        return d[0] + "_" + d[1:] if len(d) > 1 else d + "_"
    if how == "plus":
        return "+" + d
    if how == "blank":
        return " " + d
    return d + " "


def render(r):
    sp = r.get("respell") or [None, None]
    s = (f"Program:{r['scope']}." if r.get("scope") else "") + r["tag"]
    if r.get("idx") is not None:
        s += "[" + ",".join((_respell(i, sp[1]) if sp[0] == "idx" and k == 0 else str(i)) for k, i in enumerate(r["idx"])) + "]"
    for name, idx in r.get("path", []):
        s += "." + name
        if idx is not None:
            s += f"[{idx}]"
    if r.get("bit") is not None:
        s += "." + (_respell(r["bit"], sp[1]) if sp[0] == "bit" else str(r["bit"]))
    if r.get("mangle"):
        # a name whose index is not closed properly ("da[63", "da[6x"): not the name of anything the controller holds
        k = s.rfind("]")
        s = s[:k] + {"drop": "", "x": "x", "brace": "}", "open": "["}[r["mangle"]] + s[k + 1:]
    if r.get("count") is not None:
        s += "{%s}" % (_respell(r["count"], sp[1]) if sp[0] == "count" else "%d" % r["count"])
    return s


def result_name(r):
    s = render(dict(r, count=None))
    return s


def _visible_members(p, type_):
    u = p.udts[type_]
    return [m for m in u["members"] if not m["hidden"]]


@st.composite
def descend(draw, p, type_, depth=0, for_write=False, want_leaf=False):
    """member path below a struct type: list of [name, idx|None]; returns (path, final member dict)"""
    path = []
    m = None
    while type_ not in ATOMIC and p.udts[type_].get("string") is None and depth < 4:
        ms = _visible_members(p, type_)
        if not ms:
            break
        if path and not want_leaf and draw(st.integers(0, 2)) == 0:
            break
        m = draw(st.sampled_from(ms))
        idx = None
        if m["kind"] != "bit" and m["array"]:
            if m["type"] == "DWORD":
                # BOOL-array member: index is a BOOL index
                idx = draw(st.one_of(st.none(), st.integers(0, m["array"] * 32 - 1)))
            else:
                must = m["kind"] == "udt" and draw(st.booleans())
                idx = draw(st.integers(0, m["array"] - 1)) if must or draw(st.booleans()) else None
        path.append([m["name"], idx])
        if m["kind"] == "bit":
            break
        type_ = m["type"]
        depth += 1
        if m["array"] and idx is None:
            break  # a bare member array: element 0 / {n} applies here
    return path, m


@st.composite
def read_request(draw, p, tags=None):
    t = draw(st.sampled_from(tags or p.data["tags"]))
    r = {"scope": t.get("scope"), "tag": t["name"], "idx": None, "path": [], "bit": None, "count": None, "invalid": None}
    total = p.n_elements(t)
    type_ = t["type"]
    if t["dims"]:
        if type_ == "DWORD":
            nb = total * 32
            form = draw(st.sampled_from(["bare", "idx", "idx", "range", "range", "count"]))
            if form in ("idx", "range"):
                i = draw(st.one_of(st.integers(0, nb - 1), st.sampled_from([0, 31, 32, 33, nb - 1]).filter(lambda x: x < nb)))
                r["idx"] = [i]
                if form == "range":
                    r["count"] = draw(st.one_of(st.integers(1, min(nb - i, 70)), st.just(nb - i)))
            elif form == "count":
                r["count"] = draw(st.one_of(st.integers(1, min(nb, 70)), st.just(nb)))
            return r
        form = draw(st.sampled_from(["bare", "idx", "idx", "count", "idxcount", "idxcount", "whole"]))
        lin = 0
        if form in ("idx", "idxcount"):
            idx = [draw(st.one_of(st.integers(0, d - 1), st.sampled_from([0, d - 1]))) for d in t["dims"]]
            r["idx"] = idx
            for i, d in zip(idx, t["dims"]):
                lin = lin * d + i
        rem = total - lin
        if form in ("count", "idxcount"):
            r["count"] = draw(st.one_of(st.integers(1, min(rem, 6)), st.integers(1, rem), st.just(rem)))
        elif form == "whole":
            r["count"] = total
        if r["count"] is not None and r["count"] > 1:
            return r
        if r["count"] is None and draw(st.booleans()) is False:
            pass
    # continue below one element (below an array only through an explicit index)
    if t["dims"] and r["idx"] is None:
        return r
    if type_ not in ATOMIC and p.udts[type_].get("string") is None and draw(st.integers(0, 2)) > 0:
        path, m = draw(descend(p, type_))
        r["path"] = path
        if path:
            r["count"] = None   # an element count applies to the last array in the request only
        if m is not None:
            if m["kind"] == "bit":
                return r
            last = path[-1]
            if m["array"] and m["type"] == "DWORD":
                nb = m["array"] * 32
                i = last[1] or 0
                if draw(st.booleans()):
                    r["count"] = draw(st.integers(1, nb - i))
                return r
            if m["array"]:
                rem = m["array"] - (last[1] or 0)
                if draw(st.integers(0, 2)) == 0:
                    r["count"] = draw(st.integers(1, rem))
                    if r["count"] > 1:
                        return r
            type_ = m["type"]
            if r["count"] is not None and r["count"] > 1:
                return r
    if type_ in INT_BITS and r["count"] is None and draw(st.integers(0, 3)) == 0:
        r["bit"] = draw(st.one_of(st.integers(0, INT_BITS[type_] - 1), st.sampled_from([0, INT_BITS[type_] - 1])))
    return r


@st.composite
def read_requests(draw, p, min_size=1, max_size=12, tags=None):
    n = draw(st.one_of(st.integers(min_size, max(min_size, 3)), st.integers(min_size, max_size)))
    reqs = [draw(read_request(p, tags)) for _ in range(n)]
    if n >= 2 and draw(st.integers(0, 4)) == 0:  # duplicates
        reqs.append(dict(draw(st.sampled_from(reqs))))
    return reqs


# ------------------------------------------------------------------------------------------------
# values
# ------------------------------------------------------------------------------------------------
def int_value(type_):
    bits = INT_BITS[type_]
    if type_[0] == "U":
        lo, hi = 0, (1 << bits) - 1
    else:
        lo, hi = -(1 << (bits - 1)), (1 << (bits - 1)) - 1
    return st.one_of(st.integers(lo, hi), st.sampled_from([lo, hi, 0, 1, hi // 2, lo + 1]))


LATIN = st.characters(min_codepoint=0, max_codepoint=255)


@st.composite
def value_for(draw, p, type_, allow_long=True):
    if type_ == "BOOL":
        return draw(st.booleans())
    if type_ in INT_BITS:
        return draw(int_value(type_))
    if type_ == "REAL":
        return draw(st.one_of(st.floats(width=32), st.sampled_from([0.0, 1.5, -2.25, 3.0e38, 1e-40])))
    if type_ == "LREAL":
        return draw(st.one_of(st.floats(), st.sampled_from([0.0, 1.5e300, -1e-310])))
    if type_ == "DWORD":
        return draw(st.lists(st.booleans(), min_size=32, max_size=32))
    u = p.udts[type_]
    if u.get("string") is not None:
        cap = u["string"]
        opts = [st.integers(0, cap), st.sampled_from([0, max(cap - 1, 0), cap])]
        if allow_long:
            opts.append(st.sampled_from([cap + 1, cap + 2, cap + 5, 2 * cap + 3]))
        n = draw(st.one_of(*opts))
        return draw(st.text(alphabet=LATIN, min_size=n, max_size=n))
    out = {}
    for m in u["members"]:
        if m["hidden"]:
            continue
        if m["kind"] == "bit":
            out[m["name"]] = draw(st.booleans())
        elif m["array"]:
            if m["type"] == "DWORD":
                out[m["name"]] = draw(st.lists(st.booleans(), min_size=32 * m["array"], max_size=32 * m["array"]))
            elif m["array"] > 64:
                a, b = draw(value_for(p, m["type"], allow_long=False)), draw(value_for(p, m["type"], allow_long=False))
                out[m["name"]] = [a if i % 3 else b for i in range(m["array"])]
            else:
                out[m["name"]] = [draw(value_for(p, m["type"], allow_long=False)) for _ in range(m["array"])]
        else:
            out[m["name"]] = draw(value_for(p, m["type"], allow_long=False))
    for m in u["members"]:
        if m["kind"] == "bit" and not m["hidden"]:
            for h in u["members"]:
                if h["kind"] == "atomic" and not h["hidden"] and not h["array"] and h["type"] in INT_BITS and \
                        h["offset"] <= m["offset"] < h["offset"] + INT_BITS[h["type"]] // 8:
                    # a BOOL aliasing a visible integer member: the two views of the same bit are kept consistent
                    out[m["name"]] = bool(out[h["name"]] >> (8 * (m["offset"] - h["offset"]) + m["bit"]) & 1)
    return out


@st.composite
def write_request(draw, p, tags=None):
    t = draw(st.sampled_from(tags or p.data["tags"]))
    r = {"scope": t.get("scope"), "tag": t["name"], "idx": None, "path": [], "bit": None, "count": None, "invalid": None}
    total = p.n_elements(t)
    type_ = t["type"]
    if t["dims"]:
        if type_ == "DWORD":
            nb = total * 32
            form = draw(st.sampled_from(["idx", "idx", "range", "range0"]))
            if form == "idx":
                i = draw(st.one_of(st.integers(0, nb - 1), st.sampled_from([0, 31, 32, 33, nb - 1]).filter(lambda x: x < nb)))
                r["idx"] = [i]
                r["value"] = draw(st.booleans())
                if draw(st.integers(0, 4)) == 0:
                    # a slice of one element takes a one-element list, as for every other array type
                    r["count"] = 1
                    r["value"] = [r["value"]] if draw(st.integers(0, 3)) else r["value"]
                return r
            start = draw(st.integers(0, total - 1)) if form == "range" else 0
            words = draw(st.one_of(st.integers(1, min(total - start, 3)), st.just(total - start)))
            if form == "range":
                r["idx"] = [start * 32]
            r["count"] = words * 32
            extra = draw(st.sampled_from([0, 0, 0, 5]))
            pat = draw(st.lists(st.booleans(), min_size=37, max_size=37))   # 37 is coprime to 32: words differ
            r["value"] = [pat[k % 37] for k in range(words * 32 + extra)]
            return r
        form = draw(st.sampled_from(["bare", "idx", "idx", "count", "idxcount", "idxcount", "whole"]))
        lin = 0
        if form in ("idx", "idxcount"):
            idx = [draw(st.one_of(st.integers(0, d - 1), st.sampled_from([0, d - 1]))) for d in t["dims"]]
            r["idx"] = idx
            for i, d in zip(idx, t["dims"]):
                lin = lin * d + i
        rem = total - lin
        if form in ("count", "idxcount"):
            r["count"] = draw(st.one_of(st.integers(1, min(rem, 6)), st.integers(1, rem), st.just(rem)))
        elif form == "whole":
            r["count"] = total
        if r["count"] is not None and r["count"] > 1:
            big = r["count"] * p.elem_size(type_) > 600
            if big:
                v0 = draw(value_for(p, type_, allow_long=False))
                v1 = draw(value_for(p, type_, allow_long=False))
                r["value"] = [v0 if k % 3 else v1 for k in range(r["count"])]
            else:
                extra = draw(st.sampled_from([0, 0, 0, 2]))
                r["value"] = [draw(value_for(p, type_)) for _ in range(r["count"] + extra)]
            return r
    if t["dims"] and r["idx"] is None:
        v = draw(value_for(p, type_))
        r["value"] = [v] if r["count"] == 1 and draw(st.booleans()) else v
        return r
    if type_ not in ATOMIC and p.udts[type_].get("string") is None and draw(st.integers(0, 2)) > 0:
        path, m = draw(descend(p, type_, for_write=True))
        r["path"] = path
        if path:
            r["count"] = None
        if m is not None:
            if m["kind"] == "bit":
                r["value"] = draw(st.booleans())
                return r
            last = path[-1]
            if m["array"] and m["type"] == "DWORD":
                if last[1] is None or draw(st.booleans()):
                    if last[1] is None:
                        last[1] = draw(st.integers(0, m["array"] * 32 - 1))
                    r["value"] = draw(st.booleans())
                    return r
                start = last[1] // 32
                last[1] = start * 32
                words = draw(st.integers(1, m["array"] - start))
                r["count"] = words * 32
                r["value"] = draw(st.lists(st.booleans(), min_size=words * 32, max_size=words * 32))
                return r
            if m["array"]:
                rem = m["array"] - (last[1] or 0)
                if draw(st.integers(0, 2)) == 0:
                    r["count"] = draw(st.integers(1, rem))
                    if r["count"] > 1:
                        r["value"] = [draw(value_for(p, m["type"])) for _ in range(r["count"])]
                        return r
            type_ = m["type"]
    if type_ in INT_BITS and r["count"] is None and draw(st.integers(0, 2)) == 0:
        r["bit"] = draw(st.one_of(st.integers(0, INT_BITS[type_] - 1), st.sampled_from([0, INT_BITS[type_] - 1])))
        r["value"] = draw(st.booleans())
        return r
    v = draw(value_for(p, type_))
    r["value"] = [v] if r["count"] == 1 and draw(st.booleans()) else v
    return r


@st.composite
def write_requests(draw, p, min_size=1, max_size=8, tags=None):
    n = draw(st.one_of(st.integers(min_size, max(min_size, 2)), st.integers(min_size, max_size)))
    reqs = [draw(write_request(p, tags)) for _ in range(n)]
    if draw(st.integers(0, 3)) == 0:
        # several bits of one word in one call
        ints = [r for r in reqs if r["bit"] is not None]
        if ints:
            base = draw(st.sampled_from(ints))
            for b in draw(st.lists(st.integers(0, 7), min_size=1, max_size=4, unique=True)):
                reqs.append(dict(base, bit=b, value=draw(st.booleans())))
    if n >= 2 and draw(st.integers(0, 4)) == 0:
        reqs.append(dict(draw(st.sampled_from(reqs))))
    if draw(st.integers(0, 5)) == 0:
        # an array written in consecutive chunks (tag{k}, tag[k]{k}, tag[2k]{k} ...): the same tag several times in one call with
        # different start indices - and so different request-path lengths - and no overlap
        arrs = [t for t in (tags or p.data["tags"]) if len(t["dims"]) == 1 and t["type"] != "DWORD" and t["type"] in ATOMIC and p.n_elements(t) >= 4]
        if arrs:
            t = draw(st.sampled_from(arrs))
            total = p.n_elements(t)
            k = draw(st.one_of(st.integers(1, total // 2), st.sampled_from([total // 2, total // 3 or 1, max(total // 2 - 1, 1)])))
            starts = list(range(0, total - k + 1, k))[:4]
            if draw(st.booleans()):
                starts = starts[::-1]
            v0, v1 = draw(value_for(p, t["type"], allow_long=False)), draw(value_for(p, t["type"], allow_long=False))
            for j, st_ in enumerate(starts):
                reqs.append({"scope": t.get("scope"), "tag": t["name"], "idx": [st_] if (st_ or draw(st.booleans())) else None, "path": [], "bit": None,
                             "count": k, "invalid": None, "value": [v0 if (i + j) % 3 else v1 for i in range(k)] if k > 1 else [v0]})
    return reqs


# ------------------------------------------------------------------------------------------------
# invalid classes (C03)
# ------------------------------------------------------------------------------------------------
@st.composite
def invalidate(draw, p, r, op):
    """turn a valid request into one of the classes that cannot succeed"""
    r = dict(r, path=[list(x) for x in r.get("path", [])])
    t = p.tags[(r.get("scope"), r["tag"])]
    kinds = ["unknown-tag", "unknown-member"]
    if t["dims"] and t["type"] != "DWORD":
        kinds += ["index-range", "count-range"]
    if t["dims"] and t["type"] == "DWORD":
        kinds += ["negative-index"]
    if t["dims"]:
        kinds += ["negative-count", "mangled-index", "digits"]
    elif t["type"] in INT_BITS:
        kinds += ["digits"]
    if t["type"] in ("DWORD", "BOOL"):
        kinds += ["bit-of-bool"]
    if t["type"] in INT_BITS:
        kinds += ["bit-range"]
    if p.is_struct(t["type"]):
        kinds += ["bit-of-struct"]
    if op == "write":
        kinds += ["bad-value"]
        if isinstance(r.get("value"), list) and r.get("count") and r["count"] > 1 and t["type"] != "DWORD":
            kinds.append("short-list")
        if t["dims"] and t["type"] == "DWORD":
            kinds.append("misaligned-bools")
    kind = draw(st.sampled_from(kinds))
    if kind == "unknown-tag":
        r["tag"] = r["tag"] + "_nx"
        r["path"], r["idx"], r["bit"] = [], None, None
    elif kind == "unknown-member":
        if p.is_struct(t["type"]) and p.udts[t["type"]].get("string") is None:
            r["path"] = [["nx_member", None]]
            r["idx"] = [0] * len(t["dims"]) if t["dims"] else None
        else:
            r["path"] = [["nx_member", None]]
        r["bit"] = None
        r["count"] = None
        if op == "write":
            r["value"] = 1
    elif kind == "negative-index":
        # BOOL arrays are addressed by bit index: a negative one is out of range like any other
        n = draw(st.sampled_from([1, 2, 31, 32, 33]))
        r["idx"], r["path"], r["bit"] = [-n], [], None
        r["count"] = draw(st.sampled_from([None, 4, 32, 40]))
        if op == "write":
            r["value"] = [True] * r["count"] if r["count"] else True
    elif kind == "negative-count":
        # a count below zero is out of range for every array, BOOL arrays (whose count the library converts to 32-bit words) included
        n = draw(st.sampled_from([1, 5, 31, 32, 33, 40, 64, 65536]))
        r["path"], r["bit"], r["count"] = [], None, -n
        if t["type"] == "DWORD":
            total = p.n_elements(t) * 32
            r["idx"] = draw(st.sampled_from([None, [0], [32 % total], [64 % total], [40 % total], [total - 1]]))
            if op == "write":
                r["value"] = [True] * min(n, 64)
        else:
            r["idx"] = draw(st.sampled_from([None, [0] * len(t["dims"]), [d - 1 for d in t["dims"]]]))
            if op == "write":
                r["value"] = [draw(value_for(p, t["type"], allow_long=False))] * min(n, 64)
    elif kind == "mangled-index":
        if t["type"] == "DWORD":
            r["idx"] = [draw(st.integers(0, p.n_elements(t) * 32 - 1))]
        else:
            r["idx"] = [draw(st.integers(0, d - 1)) for d in t["dims"]]
        r["path"], r["bit"], r["count"] = [], None, None
        r["mangle"] = draw(st.sampled_from(["drop", "drop", "x", "brace", "open"]))
        if op == "write":
            r["value"] = True if t["type"] == "DWORD" else draw(value_for(p, t["type"], allow_long=False))
    elif kind == "digits":
        # numbers in a tag are decimal ASCII digits: other scripts' digits, underscores, signs and blanks do not spell an index, a bit or
        # a count (they name nothing the controller holds)
        how = draw(st.sampled_from(["arabic", "fullwidth", "underscore", "plus", "blank", "blank-after"]))
        r["path"] = []
        if t["dims"]:
            what = draw(st.sampled_from(["idx", "idx", "count"])) if t["type"] != "DWORD" else "idx"
            if t["type"] == "DWORD":
                r["idx"] = [draw(st.integers(0, p.n_elements(t) * 32 - 1))]
            else:
                r["idx"] = [draw(st.integers(0, d - 1)) for d in t["dims"]]
            r["bit"], r["count"] = None, (draw(st.integers(1, 3)) if what == "count" else None)
            if what == "count":
                total, lin = p.n_elements(t), 0
                for i, d in zip(r["idx"], t["dims"]):
                    lin = lin * d + i
                r["count"] = max(1, min(r["count"], total - lin))
            if op == "write":
                v = True if t["type"] == "DWORD" else draw(value_for(p, t["type"], allow_long=False))
                r["value"] = [v] * r["count"] if r["count"] else v
        else:
            what = "bit"
            r["idx"], r["count"] = None, None
            r["bit"] = draw(st.integers(0, INT_BITS[t["type"]] - 1))
            if op == "write":
                r["value"] = draw(st.booleans())
        r["respell"] = [what, how]
    elif kind == "bit-of-bool":
        # a BOOL has no bits: tag.N below a BOOL or an element of a BOOL array names nothing
        if t["type"] == "DWORD":
            r["idx"] = draw(st.sampled_from([None, [draw(st.integers(0, p.n_elements(t) * 32 - 1))]]))
        else:
            r["idx"] = [0] * len(t["dims"]) if t["dims"] else None
        r["path"], r["count"] = [], None
        r["bit"] = draw(st.integers(0, 40))
        if op == "write":
            r["value"] = draw(st.booleans())
    elif kind == "bit-range":
        # the bit index of tag.N is an index too: beyond the integer's width there is no such bit
        width = INT_BITS[t["type"]]
        r["idx"] = [0] * len(t["dims"]) if t["dims"] else None
        r["path"], r["count"] = [], None
        r["bit"] = draw(st.sampled_from([width, width + 1, 64, 65, 100, 4096]))
        if op == "write":
            r["value"] = draw(st.booleans())
    elif kind == "bit-of-struct":
        # a structure has no member called "5"
        r["idx"] = [0] * len(t["dims"]) if t["dims"] else None
        r["path"], r["count"] = [], None
        r["bit"] = draw(st.integers(0, 40))
        if op == "write":
            r["value"] = draw(st.booleans())
    elif kind == "index-range":
        idx = [0] * len(t["dims"])
        k = draw(st.integers(0, len(idx) - 1))
        idx[k] = t["dims"][k] + draw(st.sampled_from([0, 1, 100, 0, 1, 1 << 16, 1 << 32, 5_000_000_000]))   # also beyond what a 32-bit element segment can hold
        r["idx"], r["path"], r["bit"], r["count"] = idx, [], None, None
        if op == "write":
            r["value"] = draw(value_for(p, t["type"], allow_long=False))
    elif kind == "count-range":
        total = p.n_elements(t)
        r["idx"], r["path"], r["bit"] = None, [], None
        # beyond the array, including counts that do not fit the 16-bit element-count field of the tag services
        r["count"] = draw(st.sampled_from([total + 1, total + 2, total + 50, total + 1, total + 2, max(total + 1, 65536), max(total + 1, 70000)]
                                          + ([1 << 32] if op == "read" else [])))
        if op == "write":
            v = draw(value_for(p, t["type"], allow_long=False))
            r["value"] = [v] * r["count"]
    elif kind == "bad-value":
        r["idx"] = [0] * len(t["dims"]) if t["dims"] else None
        r["path"], r["bit"], r["count"] = [], None, None
        if t["type"] in INT_BITS:
            r["value"] = draw(st.sampled_from([1 << 70, "text", None]))
            if draw(st.integers(0, 2)) == 0:
                # one bit takes one truth value: no value, an empty list and two values are not that
                r["bit"] = draw(st.integers(0, INT_BITS[t["type"]] - 1))
                r["value"] = draw(st.sampled_from([None, [], [True, False]]))
        elif t["type"] == "BOOL":
            r["value"] = None
        elif t["type"] == "DWORD":
            if draw(st.booleans()):
                r["idx"] = [draw(st.integers(0, p.n_elements(t) * 32 - 1))]
                r["count"] = draw(st.sampled_from([None, 1]))
                r["value"] = draw(st.sampled_from([None, []]))
            else:
                r["idx"] = [0]
                r["count"] = 32
                r["value"] = 5
        elif t["type"] in ("REAL", "LREAL"):
            r["value"] = draw(st.sampled_from(["text", None]))
        elif p.udts[t["type"]].get("string") is not None:
            r["value"] = draw(st.sampled_from([5, None, "Āx"]))
        else:
            if not _visible_members(p, t["type"]):
                return None   # a structure without visible members accepts any dict
            r["value"] = draw(st.sampled_from([5, {"nx": 1}]))
    elif kind == "short-list":
        r["value"] = r["value"][: r["count"] - 1]
    elif kind == "misaligned-bools":
        total = p.n_elements(t)
        r["idx"] = [draw(st.sampled_from([1, 5, 31, 33])) % (total * 32)]
        if r["idx"][0] % 32 == 0:
            r["idx"] = [1]
        r["count"] = 32
        r["path"], r["bit"] = [], None
        r["value"] = [True] * 32
        if r["idx"][0] + 32 > total * 32:
            return None
    r["invalid"] = kind
    return r
