"""C15 - Connection-path strings parse to the documented route."""
from hypothesis import strategies as st

from .. import harness
from .. import refpath as RP
from ..refplc import RefTarget
from ..runner import Disc, hyp_search

PID = "C15"
LEVEL = "exploration"
TECHNIQUE = ("grammar-based generation of connection-path strings and of single-edit corruptions in the four listed rejection classes; oracle = "
             "reference grammar + reference route encoder (spelling-equivalence follows) and the route seen by the reference target in Forward Open / Unconnected Send")
RULE = ("string = host[:tcp port] (sep port-id sep link)* with sep drawn per position from '/', '\\\\', ',', host = IPv4 literal or host name, tcp port "
        "1..65534, port-id = documented alias or number 1-65535 (15 and above as extended port identifier), link = slot 0..255 or dotted quad, 0-4 hops, plus the bare-address and address/slot "
        "shortcuts (auto_slot); corruptions: drop/duplicate one segment (odd count), misspelt port name, link 256..999 / malformed quad, tcp port "
        "0 / 65535 / > 65535 / negative / non-numeric; non-trivial = >= 1 hop, or a TCP port, or a corruption; distinct = the string + auto_slot flag")
LEVEL_TEXT = ("Each in-grammar string must give the reference (host, port, route bytes) - hence all spellings of one route give identical bytes - and the "
              "same bytes must reach the target's Forward Open and Unconnected Send; each corrupted string must be rejected with RequestError at parse "
              "or DataError at encode and must never produce route bytes.")
ASSUMPTIONS = [
    "port names are lower case as documented; numeric ports 1-14; links are slot numbers or IPv4 dotted quads without leading zeros",
    "the reference grammar is vf/refpath.ref_parse_path, written from docs/getting_started.rst (Creating a Driver)",
]
FLOORS = {"quick": {"valid": 5000, "corrupt": 3000, "driver": 200, "shortcut": 500}, "thorough": {"valid": 150000, "corrupt": 80000, "driver": 4000}}

SEPS = ["/", "\\", ","]


def lib_parse(s, auto_slot):
    """-> ('ok', host, port, route_bytes) | ('reject', stage, exc)"""
    from pycomm3.cip_driver import parse_connection_path
    from pycomm3.cip import PADDED_EPATH
    from pycomm3.exceptions import RequestError, DataError
    try:
        host, port, route = parse_connection_path(s, auto_slot)
    except RequestError as e:
        return ("reject", "parse", e)
    try:
        enc = PADDED_EPATH.encode(route, length=True)
    except DataError as e:
        return ("reject", "encode", e)
    # the returned list belongs to the caller (LogixDriver pops its last segment for Micro800 targets):
    # emptying it must not change what a later parse of the same string returns
    try:
        del route[:]
        host2, port2, route2 = parse_connection_path(s, auto_slot)
        enc2 = PADDED_EPATH.encode(route2, length=True)
    except Exception as e:
        return ("impure", f"second parse raised {e!r}")
    if (host2, port2, bytes(enc2)) != (host, port, bytes(enc)):
        return ("impure", f"first parse gave route {bytes(enc).hex()}, after the caller emptied the returned list a second parse gives {bytes(enc2).hex()}")
    return ("ok", host, port, bytes(enc))


def check_string(s, auto_slot, expect_valid):
    try:
        got = lib_parse(s, auto_slot)
    except Exception as e:
        return [Disc(f"foreign.{type(e).__name__}", f"{s!r} auto_slot={auto_slot}: {e!r}")]
    try:
        host, port, hops = RP.ref_parse_path(s, auto_slot)
        ref = ("ok", host, port, RP.enc_route(hops))
    except RP.PathError as e:
        ref = ("reject", str(e))
    if (ref[0] == "ok") != expect_valid:
        from ..runner import HarnessError
        raise HarnessError(f"generator/reference disagreement on {s!r}: {ref}")
    if got[0] == "impure":
        return [Disc("parse.shared-state", f"{s!r} auto_slot={auto_slot}: {got[1]}")]
    if ref[0] == "ok":
        if got[0] != "ok":
            return [Disc(f"valid-rejected.{got[1]}", f"{s!r} auto_slot={auto_slot}: {got[2]!r}")]
        want = bytes([len(ref[3]) // 2]) + ref[3]
        if got[1] != ref[1]:
            return [Disc("host", f"{s!r}: host {got[1]!r}, expected {ref[1]!r}")]
        if got[2] != ref[2]:
            return [Disc("tcp-port", f"{s!r}: port {got[2]!r}, expected {ref[2]!r}")]
        if got[3] != want:
            return [Disc("route-bytes", f"{s!r} auto_slot={auto_slot}: route {got[3].hex()}, reference {want.hex()}")]
        return []
    if got[0] == "ok":
        return [Disc(f"invalid-accepted.{_corr_class(ref[1])}", f"{s!r} auto_slot={auto_slot} ({ref[1]}) yields route {got[3].hex()}")]
    return []


def _corr_class(msg):
    for k in ("odd", "port name", "port number", "TCP", "link", "slot"):
        if k in msg:
            return k.replace(" ", "-")
    return "other"


def render(host, port, hops, seps):
    s = host + (f":{port}" if port is not None else "")
    k = 0
    for seg in [x for h in hops for x in h]:
        s += seps[k % len(seps)] + str(seg)
        k += 1
    return s


ipv4 = st.lists(st.integers(0, 255), min_size=4, max_size=4).map(lambda p: ".".join(map(str, p)))
hosts = st.one_of(ipv4, st.sampled_from(["plc1", "line-3.plant.example", "localhost", "a"]))
port_ids = st.one_of(st.sampled_from(sorted(RP.PORT_NAMES)), st.integers(1, 14).map(str), st.integers(1, 14).map(str),
                     st.sampled_from(["15", "16", "17", "32", "255", "256", "65535"]), st.integers(15, 65535).map(str))
links = st.one_of(st.integers(0, 255).map(str), ipv4, st.sampled_from(["0", "1", "9", "10", "255", "1.2.3.4", "10.10.10.10", "255.255.255.255"]))
tcp_ports = st.one_of(st.none(), st.none(), st.integers(1, 65534), st.sampled_from([1, 44818, 65534]))


@st.composite
def valid_strings(draw):
    auto = draw(st.booleans())
    host, port = draw(hosts), draw(tcp_ports)
    nseg = draw(st.integers(0, 4))
    hops = [[draw(port_ids), draw(links)] for _ in range(nseg)]
    seps = draw(st.lists(st.sampled_from(SEPS), min_size=1, max_size=8))
    if auto and draw(st.integers(0, 2)) == 0:
        # shortcuts: bare address or address/slot
        slot = draw(st.one_of(st.none(), st.integers(0, 255)))
        s = host + (f":{port}" if port is not None else "") + ("" if slot is None else seps[0] + str(slot))
        return {"s": s, "auto": True, "valid": True, "shortcut": True}
    return {"s": render(host, port, hops, seps), "auto": auto, "valid": True, "shortcut": False, "hops": len(hops)}


@st.composite
def corrupt_strings(draw):
    auto = draw(st.booleans())
    host = draw(hosts)
    nseg = draw(st.integers(1, 4))
    hops = [[draw(port_ids), draw(links)] for _ in range(nseg)]
    seps = draw(st.lists(st.sampled_from(SEPS), min_size=1, max_size=8))
    port = draw(tcp_ports)
    kind = draw(st.sampled_from(["odd-drop", "odd-dup", "port-name", "link-range", "link-quad", "tcp-port", "tcp-port", "digits", "shortcut-not-slot"]))
    flat = [x for h in hops for x in h]
    if kind == "shortcut-not-slot":
        # the address/slot shortcut of the Logix and SLC drivers takes a slot number: one segment that is an address, a port name
        # or a separator-less remainder of a longer route ('1.2.3.4/210.0.0.5') is an odd number of route segments
        auto = True
        flat = [draw(st.one_of(ipv4, st.sampled_from(["bp", "backplane", "enet", "210.0.0.5", "1.2.3", "slot", "a", "2x"])))]
    elif kind == "odd-drop":
        i = draw(st.integers(0, len(flat) - 1))
        flat = flat[:i] + flat[i + 1:]
        if auto and len(flat) <= 1:
            flat = flat + ["bp", "1", "2"]   # keep it outside the shortcut forms
    elif kind == "odd-dup":
        i = draw(st.integers(0, len(flat) - 1))
        flat = flat[:i] + [flat[i]] + flat[i:]
    elif kind == "port-name":
        i = draw(st.integers(0, nseg - 1)) * 2
        flat[i] = draw(st.sampled_from(["backplan", "bpx", "ethernet", "enett", "b", "port", "dhrio", "bp0"]))
    elif kind == "link-range":
        i = draw(st.integers(0, nseg - 1)) * 2 + 1
        flat[i] = str(draw(st.one_of(st.integers(256, 999), st.sampled_from([256, 257, 999]))))
    elif kind == "digits":
        # numbers of the grammar are ASCII digits: other scripts' digits, signs, underscores or blanks do not spell a slot or a port
        i = draw(st.integers(0, len(flat) - 1))
        flat[i] = draw(st.sampled_from(["\u0663", "\uff11", "\u0967", "+1", "1_0", " 1", "1 ", "\u00b2"]))
    elif kind == "link-quad":
        i = draw(st.integers(0, nseg - 1)) * 2 + 1
        flat[i] = draw(st.sampled_from(["1.2.3", "1.2.3.256", "1.2.3.4.5", "a.b.c.d", "1..2.3", "300.1.1.1", "slot1"]))
    else:
        port = draw(st.sampled_from(["0", "65535", "65536", "70000", "-1", "abc", "", "4a", "448:18", ":44818", "44818:", "1:2:3", ":",
                                     "4_4818", "+44818", " 44818", "44818 ", "44818\t", "\u0664\u0664\u0668\u0661\u0668", "\uff14\uff14\uff18\uff11\uff18", "4 4818", "0x10", "1e3"]))
    s = host + (f":{port}" if port is not None else "")
    for k, seg in enumerate(flat):
        s += seps[k % len(seps)] + str(seg)
    return {"s": s, "auto": auto, "valid": False, "kind": kind}


def check_driver(c):
    """the route parsed from the string is what the target sees in Forward Open and Unconnected Send"""
    from pycomm3 import CIPDriver, LogixDriver
    from pycomm3.exceptions import PycommError
    s, auto = c["s"], c["auto"]
    discs = []
    try:
        host, port, hops = RP.ref_parse_path(s, auto)
        want = RP.enc_route(hops)
    except RP.PathError:
        want = None
    tgt = RefTarget({"expected_route": want if want is not None else b"\xff", "ucsend_any_route": True})
    harness.install(tgt)
    try:
        try:
            drv = (LogixDriver(s, init_tags=False) if auto else CIPDriver(s))
            if auto:
                drv._initialize_driver = lambda **kw: None  # no Logix objects behind this bare target
            drv.open()
            drv.generic_message(service=0x0E, class_code=1, instance=1, attribute=1, connected=True)
            drv.generic_message(service=0x01, class_code=1, instance=1, connected=False, unconnected_send=True)
            drv.close()
        except PycommError as e:
            if want is not None:
                discs.append(Disc(f"driver.valid-rejected.{type(e).__name__}", f"{s!r}: {e!r} <- {e.__cause__!r}"[:400]))
        except Exception as e:
            discs.append(Disc(f"driver.foreign.{type(e).__name__}", f"{s!r}: {e!r}"))
        if want is None:
            if tgt.fo_attempts or any("ucsend" in e for e in tgt.log):
                discs.append(Disc("driver.invalid-reaches-target", f"{s!r} is outside the grammar but a Forward Open / Unconnected Send was sent"))
        else:
            for prop, code, detail in tgt.audits:
                if code.endswith(".route") or prop == "C09":
                    discs.append(Disc(f"driver.{code}", f"{s!r}: {detail}"))
            us = [e["ucsend"]["route"] for e in tgt.log if "ucsend" in e]
            if us and us[0] != want:
                discs.append(Disc("driver.ucsend.route", f"{s!r}: Unconnected Send route {us[0].hex()}, reference {want.hex()}"))
            if not tgt.fo_attempts:
                discs.append(Disc("driver.no-forward-open", f"{s!r}: no Forward Open reached the target"))
    finally:
        harness.uninstall()
    return discs


FIXED_STRINGS = [
    # (string, auto_slot, valid)
    ("10.0.0.1", True, True), ("10.0.0.1/3", True, True), ("10.0.0.1:4444", True, True), ("10.0.0.1/bp/2/enet/10.1.1.1/bp/0", False, True),
    ("plc1,bp,0", False, True), ("plc1\\backplane\\1", False, True), ("10.0.0.1:1/1/0", False, True), ("10.0.0.1:65534", False, True),
    ("10.0.0.1:0", False, False), ("10.0.0.1:65535", False, False), ("10.0.0.1:65536", False, False), ("10.0.0.1:70000/bp/1", False, False),
    ("10.0.0.1:-1", False, False), ("10.0.0.1:-123", True, False), ("10.0.0.1:abc", False, False), ("10.0.0.1:", False, False), ("10.0.0.1:4a/bp/0", True, False),
    ("10.0.0.1/bp", False, False), ("10.0.0.1/bp/1/enet", False, False), ("10.0.0.1/bp/1/enet/10.1.1.1/bp", True, False),
    ("10.0.0.1/bpx/1", False, False), ("10.0.0.1/ethernet/10.1.1.1", False, False), ("10.0.0.1/bp/256", False, False), ("10.0.0.1/bp/999", True, False),
    ("10.0.0.1/enet/1.2.3", False, False), ("10.0.0.1/enet/1.2.3.256", False, False), ("10.0.0.1/enet/a.b.c.d", False, False), ("10.0.0.1/enet/1.2.3.4.5", False, False),
]


def check_fixed_in_subprocess(flags):
    """the same strings under another interpreter configuration (e.g. python -O strips assert statements)"""
    import json
    import subprocess
    import sys
    from ..runner import REPO, VERIF
    code = ("import sys, json; sys.path.insert(0, %r); sys.path.insert(0, %r); import logging; logging.disable(50)\n"
            "from vf.props import c15\n"
            "out = []\n"
            "for s, a, v in c15.FIXED_STRINGS:\n"
            "    out += [[s, a, d.bucket, d.detail] for d in c15.check_string(s, a, v)]\n"
            "print(json.dumps(out))\n") % (VERIF, REPO)
    r = subprocess.run([sys.executable] + flags + ["-c", code], capture_output=True, text=True, timeout=300)
    if r.returncode != 0:
        from ..runner import HarnessError
        raise HarnessError(f"subprocess {flags} failed: {r.stderr[-500:]}")
    return json.loads(r.stdout.strip().splitlines()[-1])


def plan(tier):
    jobs = [{"part": "interp", "flags": ["-O"]}, {"part": "interp", "flags": ["-OO"]}, {"part": "interp", "flags": []}]
    n = 8 if tier == "quick" else 64
    for _ in range(n):
        jobs.append({"part": "valid", "examples": 900 if tier == "quick" else 24000})
        jobs.append({"part": "corrupt", "examples": 600 if tier == "quick" else 12000})
    for _ in range(4 if tier == "quick" else 16):
        jobs.append({"part": "driver", "examples": 120 if tier == "quick" else 2500})
    return jobs


def check_any(c):
    return check_string(c["s"], c["auto"], c["valid"])


def run_job(ctx, job):
    part = job["part"]
    if part == "interp":
        res = check_fixed_in_subprocess(job["flags"])
        for s_, a, v in FIXED_STRINGS:
            ctx.case(("interp", tuple(job["flags"]), s_, a), True, ["valid" if v else "corrupt", "interpreter-mode"])
        for s_, a, bucket, detail in res:
            ctx.violation(Disc("interp%s.%s" % ("".join(job["flags"]), bucket), detail + f" [python {' '.join(job['flags'])}]"), "interp", {"flags": job["flags"], "s": s_, "auto": a})
        return
    if part == "valid":
        hyp_search(ctx, "string", valid_strings(), lambda c: (check_any(c), bool(c.get("hops")) or ":" in c["s"] or c.get("shortcut"),
                                                              ["valid"] + (["shortcut"] if c.get("shortcut") else [])), job["examples"])
    elif part == "corrupt":
        hyp_search(ctx, "string", corrupt_strings(), lambda c: (check_any(c), True, ["corrupt", "corrupt." + c["kind"]]), job["examples"])
    else:
        hyp_search(ctx, "driver", st.one_of(valid_strings(), valid_strings(), corrupt_strings()), lambda c: (check_driver(c), True, ["driver"]), job["examples"])


def replay(ctx, kind, case):
    if kind == "interp":
        return [Disc(b, d) for s_, a, b, d in check_fixed_in_subprocess(case["flags"]) if s_ == case["s"]]
    return check_any(case) if kind == "string" else check_driver(case)
