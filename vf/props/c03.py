"""C03 - One result per request, in request order, with failures isolated."""
from hypothesis import strategies as st

from .. import scenario as S
from ..runner import Disc, hyp_search
from . import c01

PID = "C03"
LEVEL = "exploration"
TECHNIQUE = ("Hypothesis-generated request lists mixing valid requests with the listed invalid classes (and target-forced error statuses), "
             "reads and writes; oracle = per-position model result, no exception, falsy-with-error for invalid ones, unchanged outcome of valid ones")
RULE = ("case = (project, memory, configuration, read or write request list of length 1-40 in which each request is, with probability 1/4, "
        "mutated into one of: unknown tag, unknown member, index out of range, count past the end, unencodable value, too-short value list, "
        "misaligned BOOL-array write; optionally a controller error status forced on one tag); plus Tag(...) truthiness over arbitrary fields; "
        "non-trivial = list has >= 1 invalid and >= 1 valid request, or a duplicate, or >= 2 requests split over packets; distinct = hash of the case")
LEVEL_TEXT = ("Model-based exploration of mixed request lists: every position is checked against the model (valid -> C01/C02 expectation, "
              "invalid -> falsy Tag with error text), no exception may escape, and shape/order/name are checked for every call.")
ASSUMPTIONS = c01.ASSUMPTIONS + [
    "request syntax garbage (tag[x], unbalanced braces) is outside the statement and not generated",
    "a failed request may carry its name with or without the {n} suffix",
]
FLOORS = {"quick": {"mixed": 300, "has-invalid": 600, "truthiness": 1000, "forced": 100, "forced-nth.fragment": 60},
          "thorough": {"mixed": 5000, "has-invalid": 10000, "forced": 1500}}


def check_case(case):
    run = S.run_case(case, want_readback=False)
    discs = run.of("C03")
    inv = [r for r in case["reqs"] if r.get("invalid")]
    val = [r for r in case["reqs"] if not r.get("invalid")]
    cls = set(run.classes)
    nth = any("nth" in f.get("when", {}) or "packet" in f.get("when", {}) for f in case.get("forced", []))
    if nth:
        # one (unknown) request is refused by the controller: it may fail, but whatever is reported successful must be
        # right - in particular a transfer with a refused fragment must not be reported as success
        cls.add("forced-nth")
        discs = [d for d in discs if ".valid-fails." not in d.bucket]
        discs += [Disc("forced-nth." + d.bucket, d.detail) for d in run.of("C01", "C02")
                  if d.bucket.startswith(("write.content", "read.value", "read.type", "read.repeat"))]   # a refused transfer may be partly applied
        if any("packet" in f.get("when", {}) for f in case["forced"]) and any(e.get("service") == 0x0A and e.get("status") not in (0, None) for e in run.tgt.log):
            cls.add("forced-packet.hit")
        executed_forced = [r for r in run.tgt.svc_log if r.get("forced")]
        if executed_forced:
            cls.add("forced-nth.hit")
            if any(r.get("service") in (0x52, 0x53) for r in executed_forced):
                cls.add("forced-nth.fragment")
    elif inv:
        cls.add("has-invalid")
        for r in inv:
            cls.add("invalid." + r["invalid"])
        # isolation: valid requests must still match the C01/C02 model
        discs += [Disc("isolation." + d.bucket, d.detail) for d in run.of("C01", "C02")]
    if inv and val:
        cls.add("mixed")
    if case.get("forced"):
        cls.add("forced")
    names = [S.render(r) for r in case["reqs"]]
    dup = len(set(names)) < len(names)
    nt = bool(inv and val) or dup or "multi-packet-split" in cls
    return discs, nt, sorted(cls)


def check_tag(fields):
    from pycomm3 import Tag
    tag, value, typ, error = fields
    t = Tag(tag, value, typ, error)
    want = value is not None and error is None
    if bool(t) != want:
        return [Disc("truthiness", f"bool(Tag(value={value!r}, error={error!r})) is {bool(t)}")]
    return []


VALUES = st.one_of(st.none(), st.integers(-3, 3), st.booleans(), st.just(0.0), st.just(""), st.just([]), st.just({}), st.text(max_size=3),
                   st.lists(st.integers(0, 2), max_size=2), st.just(b""), st.just(float("nan")))
ERRORS = st.one_of(st.none(), st.just(""), st.text(max_size=5), st.just("Unknown Error"))


def check_empty_call(op, micro):
    """n = 0: a call without requests answers with an empty list (not with an exception, not with a Tag)"""
    from pycomm3.exceptions import PycommError
    from .. import harness
    from ..refplc import RefPLC
    pd = {"udts": [], "programs": [], "extras": [], "tags": [{"name": "A", "scope": None, "type": "DINT", "dims": [], "instance": 3, "access": 0, "alias": False}]}
    cfg = {"fo_policy": "std"}
    if micro:
        cfg["identity"] = {"major": 12, "minor": 0, "product_name": "2080-LC50-48QWB", "serial": 1}
    tgt = RefPLC(pd, {"/A": bytes(4)}, cfg)
    try:
        plc = harness.open_logix(tgt, "192.168.1.10")
        try:
            got = plc.read() if op == "read" else plc.write()
        except Exception as e:
            if S.where(e) == "harness":
                raise
            return [Disc(f"empty-call.{op}.raises.{type(e).__name__}", f"{op}() without requests raised {e!r}")]
        finally:
            try:
                plc.close()
            except PycommError:
                pass
        if got != []:
            return [Disc(f"empty-call.{op}.result", f"{op}() without requests returned {got!r}, expected []")]
    finally:
        harness.uninstall()
    return []


def plan(tier):
    n = 8 if tier == "quick" else 32
    per = 190 if tier == "quick" else 2400
    jobs = []
    for _ in range(n):
        jobs.append({"part": "read", "examples": per})
        jobs.append({"part": "write", "examples": per})
    for i in range(4 if tier == "quick" else 16):
        jobs.append({"part": ["read", "write"][i % 2], "fragfail": True, "examples": 100 if tier == "quick" else 1200})
    jobs.append({"part": "tag", "examples": 2000 if tier == "quick" else 50000})
    jobs.append({"part": "empty"})
    for _ in range(4 if tier == "quick" else 16):
        jobs.append({"part": "wrap", "examples": 40 if tier == "quick" else 400})
    return jobs


def run_job(ctx, job):
    if job["part"] == "wrap":
        # long-lived connection: the same histories as C17 (counter phase placed so that the 16-bit wrap falls inside them);
        # read / write must keep answering with Tags there
        from . import c17

        def check_wrap(case):
            discs, nt, cls = c17.check_history(case, strict=True)
            return [d for d in discs if d.bucket.startswith("strict.")], True, ["wrap-history"]

        hyp_search(ctx, "wrap", c17.histories(), check_wrap, job["examples"], sample_of=c17.sample_of)
        return
    if job["part"] == "empty":
        for op in ("read", "write"):
            for micro in (False, True):
                ctx.case(("empty-call", op, micro), True, ["empty-call"])
                for d in check_empty_call(op, micro):
                    ctx.violation(d, "empty", {"op": op, "micro": micro})
        return
    if job["part"] == "tag":
        hyp_search(ctx, "tag", st.tuples(st.text(max_size=4), VALUES, st.one_of(st.none(), st.text(max_size=4)), ERRORS),
                   lambda f: (check_tag(f), True, ["truthiness"]), job["examples"])
        return
    hyp_search(ctx, "case", c01.cases(job["part"], invalid=True, many=True, fragfail=job.get("fragfail", False)), check_case, job["examples"], sample_of=c01.sample_of)


def replay(ctx, kind, case):
    if kind == "tag":
        return check_tag(case)
    if kind == "empty":
        return check_empty_call(case["op"], case["micro"])
    if kind == "wrap":
        from . import c17
        return [d for d in c17.check_history(case, strict=True)[0] if d.bucket.startswith("strict.")]
    return check_case(case)[0]
