"""C18 - SLC addresses select the right file, element and bit; data round-trips."""
import struct

from hypothesis import strategies as st

from .. import harness
from ..refcodec import ref_equal
from ..refslc import ELEM_SIZE, FILE_TYPES, IO_SLOT_STRIDE, RefSLC
from ..runner import Disc, hyp_search

PID = "C18"
LEVEL = "exploration"
TECHNIQUE = ("grammar-based generation of data-file addresses, values and data-table contents, exhaustive over all binary-file bit numbers and all "
             "(element, bit) pairs, against a reference PCCC target; oracle = PCCC fields vs a reference parse, table diff, read-back, RequestError for out-of-grammar addresses")
RULE = ("address = N|B|F|L<file 1-255>:<elem 0-255>[/bit 0-15][{count}] | B<file>/<n 0-4095> | S:<elem>[/bit] | I|O:<slot>[.<word>][/bit] | "
        "T|C<file>:<elem>.<ACC|PRE|EN|DN|TT|CU|CD|OV|UN|UA> (reads), upper/lower case, counts with size*count <= 255 bytes (the one-byte size field of a request); values over the element "
        "type's range; arbitrary prior table contents; out-of-grammar: unsupported letters, file 0/256+, element 256+ (incl. 4 digits), bit 16+ (incl. "
        "3 digits), B<f>/4096+; non-trivial = bit form, Bf/n form, {count} > 1, T/C sub-element or an out-of-range address; distinct = (operation, address, value)")
LEVEL_TEXT = ("Each operation is executed by the real SLCDriver against the reference PCCC target: the command's file number / type / element / "
              "sub-element / size / mask must equal the reference parse of the address, reads must return the table's content, writes must change "
              "exactly the addressed words or bit, and out-of-grammar addresses must raise RequestError before anything is sent.")
ASSUMPTIONS = [
    "bit access on float files, writes to timer/counter sub-elements and ST/A files are not asserted",
    "the I/O image of the reference target reserves 256 words per slot; other files are arrays of fixed-size elements",
]
FLOORS = {"quick": {"bit": 2000, "bfile": 4000, "count": 50, "tc": 50, "reject": 1000, "write": 2000},
          "thorough": {"bit": 40000, "bfile": 40000, "count": 15000, "reject": 15000}}

CT = {"PRE": ("word", 1), "ACC": ("word", 2), "EN": ("bit", 15), "TT": ("bit", 14), "DN": ("bit", 13), "CU": ("bit", 15), "CD": ("bit", 14),
      "OV": ("bit", 12), "UN": ("bit", 11), "UA": ("bit", 10)}
INT_FILES = ["N", "B", "S", "I", "O"]


def render(a):
    ft = a["ft"]
    if a.get("bform") is not None:
        s = f"B{a['file']}/{a['bform']}"
    elif ft == "S":
        s = f"S:{a['elem']}"
    elif ft in ("I", "O"):
        s = f"{ft}:{a['elem']}" + (f".{a['word']}" if a.get("word") is not None else "")
    elif ft in ("T", "C"):
        s = f"{ft}{a['file']}:{a['elem']}.{a['ct']}"
    else:
        s = f"{ft}{a['file']}:{a['elem']}"
    if a.get("bit") is not None and a.get("bform") is None:
        s += f"/{a['bit']}"
    if a.get("count") is not None:
        s += "{%d}" % a["count"]
    return s.lower() if a.get("lower") else s


def ref_loc(a):
    """reference parse -> (type code, file no, element, sub-element byte, bit|None, count)"""
    ft = a["ft"]
    code = FILE_TYPES[ft]
    if a.get("bform") is not None:
        return code, a["file"], a["bform"] // 16, 0, a["bform"] % 16, 1
    fno = {"S": 2, "I": 1, "O": 0}.get(ft, a.get("file"))
    sub = a.get("word") or 0 if ft in ("I", "O") else 0
    return code, fno, a["elem"], sub, a.get("bit"), a.get("count") or 1


def offset(code, elem, sub):
    return elem * IO_SLOT_STRIDE + sub * 2 if code in (0x82, 0x83) else elem * ELEM_SIZE[code] + sub * 2


def table_for(code, seed):
    size = 256 * (IO_SLOT_STRIDE if code in (0x82, 0x83) else ELEM_SIZE[code]) + 8
    L = len(seed)
    return bytearray((seed[i % L] + (i // L) * 31 + (i >> 3)) & 0xFF for i in range(size))


def elem_value(ft, raw):
    if ft == "F":
        return struct.unpack("<f", raw)[0]
    if ft == "L":
        return struct.unpack("<i", raw)[0]
    return struct.unpack("<h", raw)[0]


def check_op(c):
    from pycomm3 import SLCDriver
    from pycomm3.exceptions import PycommError, RequestError
    a = c["addr"]
    s = render(a)
    discs = []
    code, fno, elem, sub, bit, count = ref_loc(a)
    es = ELEM_SIZE[code]
    tables = {(code, fno): table_for(code, bytes(c["seed"]))}
    tgt = RefSLC(tables, {"fo_policy": c.get("fo_policy", "std"), "expected_route": b"\x01\x00"})
    before = bytes(tgt.tables[(code, fno)])
    harness.install(tgt)
    try:
        plc = SLCDriver("10.0.0.7")
        plc.open()
        off = offset(code, elem, sub)
        try:
            if c["op"] == "read":
                tag = plc.read(s)
            else:
                tag = plc.write((s, c["value"]))
        except PycommError as e:
            return [Disc(f"{c['op']}.raises.{type(e).__name__}.{kind_of(a)}", f"{s}: {e!r} <- {e.__cause__!r}"[:500])]
        except Exception as e:
            return [Disc(f"{c['op']}.foreign.{type(e).__name__}.{kind_of(a)}", f"{s}: {e!r}"[:400])]
        cmds = [r for r in tgt.commands if r["fnc"] in (0xA2, 0xAB)]
        if not cmds:
            return [Disc(f"{c['op']}.commands", f"{s}: no PCCC command was sent")]
        r = cmds[0]
        want_fnc = 0xA2 if c["op"] == "read" else 0xAB
        for x in cmds:
            if x["fnc"] != want_fnc or "file_no" not in x:
                return [Disc(f"{c['op']}.function", f"{s}: function {x['fnc']:#x}, body {x['body'].hex()}")]
        is_bit = bit is not None
        want_size = es * count if not (is_bit and c["op"] == "write") else 2
        if len(cmds) == 1:
            got = (r["file_no"], r["file_type"], r["element"], r["sub"])
            if got != (fno, code, elem, sub):
                discs.append(Disc(f"{c['op']}.address.{kind_of(a)}", f"{s}: command addresses file {r['file_no']} type {r['file_type']:#x} element {r['element']} sub {r['sub']}; "
                                                                  f"reference parse: file {fno} type {code:#x} element {elem} sub {sub}"))
            if r["size"] != want_size:
                discs.append(Disc(f"{c['op']}.size.{kind_of(a)}", f"{s}: byte size {r['size']}, expected {want_size}"))
        else:
            # a {count} request may be carried by several commands: together they must cover exactly the addressed elements
            covered = set()
            for x in cmds:
                if (x["file_no"], x["file_type"]) != (fno, code) or count == 1 or is_bit:
                    discs.append(Disc(f"{c['op']}.address.{kind_of(a)}", f"{s}: one of {len(cmds)} commands addresses file {x['file_no']} type {x['file_type']:#x} element {x['element']} sub {x['sub']}"))
                o = offset(code, x["element"], x["sub"])
                covered |= set(range(o, o + x["size"]))
            if covered != set(range(off, off + want_size)) and not discs:
                discs.append(Disc(f"{c['op']}.address.{kind_of(a)}", f"{s}: {len(cmds)} commands cover bytes {min(covered)}..{max(covered)} ({len(covered)} bytes) of the file, "
                                                                  f"the request addresses bytes {off}..{off + want_size - 1}"))
        if c["op"] == "read":
            ct = a.get("ct")
            raw = before[off:off + es * count]
            if ct:
                kind, n = CT[ct]
                w = struct.unpack_from("<h", raw, 2 * n if kind == "word" else 0)[0]
                want = w if kind == "word" else bool(w >> n & 1)
            elif is_bit:
                want = bool(struct.unpack_from("<H", raw, 0)[0] >> bit & 1)
            elif count == 1:
                want = elem_value(a["ft"], raw[:es])
            else:
                want = [elem_value(a["ft"], raw[i * es:(i + 1) * es]) for i in range(count)]
            if not tag:
                discs.append(Disc(f"read.falsy.{kind_of(a)}", f"{s}: {tag!r}"))
            elif not ref_equal(tag.value, want) or isinstance(tag.value, bool) != isinstance(want, bool):
                discs.append(Disc(f"read.value.{kind_of(a)}", f"{s}: got {tag.value!r}, table holds {want!r}"[:400]))
            if bytes(tgt.tables[(code, fno)]) != before:
                discs.append(Disc("read.modifies-table", s))
        else:
            after = bytes(tgt.tables[(code, fno)])
            model = bytearray(before)
            v = c["value"]
            if is_bit:
                w = struct.unpack_from("<H", model, off)[0]
                w = (w | (1 << bit)) if v else (w & ~(1 << bit) & 0xFFFF)
                struct.pack_into("<H", model, off, w)
                if r.get("mask") != 1 << bit:
                    discs.append(Disc("write.mask.bit", f"{s}: mask {r.get('mask'):#06x}, expected {1 << bit:#06x}"))
                elif r.get("data") not in (struct.pack("<H", 1 << bit), b"\x00\x00") or bool(struct.unpack("<H", r["data"])[0]) != bool(v):
                    discs.append(Disc("write.data.bit", f"{s} <- {v}: data {r.get('data').hex() if r.get('data') else None}"))
            else:
                vals = list(v)[:count] if count > 1 else [v]
                fmt = {"F": "<f", "L": "<i"}.get(a["ft"], "<h")
                for i, x in enumerate(vals):
                    struct.pack_into(fmt, model, off + i * es, x)
                if any(x.get("mask") != 0xFFFF for x in cmds):
                    discs.append(Disc("write.mask.word", f"{s}: mask {[x.get('mask') for x in cmds]}"))
            if not tag:
                discs.append(Disc(f"write.falsy.{kind_of(a)}", f"{s} <- {v!r}: {tag!r}"[:400]))
            elif after != bytes(model):
                pos = next(i for i, (x, y) in enumerate(zip(after, model)) if x != y)
                discs.append(Disc(f"write.table.{kind_of(a)}", f"{s} <- {v!r}: table byte {pos} is {after[pos]:#04x}, expected {model[pos]:#04x} (addressed range starts at {off})"[:400]))
            else:
                # a write followed by a read returns the written value
                n0 = len(tgt.commands)
                try:
                    back = plc.read(s)
                    if is_bit:
                        wantb = bool(v)
                    elif count > 1:
                        wantb = [elem_value(a["ft"], bytes(model[off + i * es:off + (i + 1) * es])) for i in range(count)]
                    else:
                        wantb = elem_value(a["ft"], bytes(model[off:off + es]))
                    if not back or not ref_equal(back.value, wantb):
                        discs.append(Disc(f"readback.{kind_of(a)}", f"{s} <- {v!r}: read back {back!r}"[:400]))
                except PycommError as e:
                    discs.append(Disc(f"readback.raises.{kind_of(a)}", f"{s}: {e!r}"))
        plc.close()
    except PycommError as e:
        discs.append(Disc(f"setup.raises.{type(e).__name__}", repr(e)))
    finally:
        harness.uninstall()
    return discs


def check_reject(c):
    """out-of-grammar address: RequestError, nothing sent"""
    from pycomm3 import SLCDriver
    from pycomm3.exceptions import PycommError, RequestError
    s = c["s"]
    tgt = RefSLC({}, {"fo_policy": "std", "expected_route": b"\x01\x00"})
    harness.install(tgt)
    discs = []
    try:
        plc = SLCDriver("10.0.0.7")
        plc.open()
        try:
            res = plc.read(s) if c["op"] == "read" else plc.write((s, 1))
            discs.append(Disc(f"reject.accepted.{c['why']}", f"{c['op']}({s!r}) returned {res!r}; commands sent: {[(hex(r['fnc']), r.get('file_no'), r.get('element'), r.get('sub')) for r in tgt.commands]}"[:500]))
        except RequestError:
            if tgt.commands:
                discs.append(Disc(f"reject.sent-before-raise.{c['why']}", s))
        except PycommError as e:
            discs.append(Disc(f"reject.wrong-exception.{type(e).__name__}.{c['why']}", f"{s!r}: {e!r}"))
        except Exception as e:
            discs.append(Disc(f"reject.foreign.{type(e).__name__}.{c['why']}", f"{s!r}: {e!r}"))
        plc.close()
    finally:
        harness.uninstall()
    return discs


def check_longlived(nreq):
    """one SLCDriver object for thousands of requests (every transaction id / sequence value is used): write, read back, compare with the table"""
    from pycomm3 import SLCDriver
    from pycomm3.exceptions import PycommError
    tables = {(0x89, 7): table_for(0x89, b"\x11\x22\x33"), (0x85, 3): table_for(0x85, b"\x0f\xf0\x55"), (0x8A, 8): table_for(0x8A, b"\x01\x02\x03\x04\x05")}
    tgt = RefSLC(tables, {"fo_policy": "std", "expected_route": b"\x01\x00"})
    harness.install(tgt, budget=3 * nreq + 1000)
    try:
        plc = SLCDriver("10.0.0.7")
        plc.open()
        for i in range(nreq // 2):
            e = i % 200
            kind = i % 4
            try:
                if kind == 0:
                    v = (i * 37) % 65536 - 32768
                    w = plc.write((f"N7:{e}", v))
                    r = plc.read(f"N7:{e}")
                    want = struct.unpack_from("<h", tgt.tables[(0x89, 7)], 2 * e)[0]
                    ok = bool(w) and bool(r) and r.value == v == want
                elif kind == 1:
                    b = i % 16
                    v = bool(i & 8)
                    before = struct.unpack_from("<H", tgt.tables[(0x85, 3)], 2 * e)[0]
                    w = plc.write((f"B3:{e}/{b}", v))
                    r = plc.read(f"B3:{e}/{b}")
                    after = struct.unpack_from("<H", tgt.tables[(0x85, 3)], 2 * e)[0]
                    ok = bool(w) and bool(r) and r.value is v and after == ((before | (1 << b)) if v else (before & ~(1 << b) & 0xFFFF))
                elif kind == 2:
                    r = plc.read(f"N7:{e}{{3}}") if e < 198 else plc.read(f"N7:{e}")
                    want = [struct.unpack_from("<h", tgt.tables[(0x89, 7)], 2 * (e + k))[0] for k in range(3)] if e < 198 else struct.unpack_from("<h", tgt.tables[(0x89, 7)], 2 * e)[0]
                    w = True
                    ok = bool(r) and r.value == want
                else:
                    v = float(i % 1000) / 8
                    w = plc.write((f"F8:{e}", v))
                    r = plc.read(f"F8:{e}")
                    ok = bool(w) and bool(r) and r.value == v
            except PycommError as ex:
                return [Disc(f"longlived.raises.{type(ex).__name__}", f"request #{2 * i + 1} on one driver object: {ex!r}")]
            if not ok:
                return [Disc("longlived.value", f"request #{2 * i + 1}/{2 * i + 2} on one driver object (kind {kind}, element {e}): write {w!r}, read {r!r}"[:400])]
        plc.close()
        return []
    finally:
        harness.uninstall()


def kind_of(a):
    if a.get("bform") is not None:
        return "bfile"
    if a.get("ct"):
        return "tc"
    k = a["ft"]
    if a.get("bit") is not None:
        return k + ".bit"
    if (a.get("count") or 1) > 1:
        return k + ".count"
    return k + ".word"


def classes(c):
    a = c["addr"]
    out = [c["op"]]
    if a.get("bform") is not None:
        out.append("bfile")
    if a.get("bit") is not None:
        out.append("bit")
    if (a.get("count") or 1) > 1:
        out.append("count")
    if a.get("ct"):
        out.append("tc")
    return out


# ------------------------------------------------------------------------------------------------
files = st.one_of(st.integers(1, 255), st.sampled_from([1, 3, 7, 9, 10, 99, 100, 254, 255]))
elems = st.one_of(st.integers(0, 255), st.sampled_from([0, 1, 9, 10, 99, 100, 254, 255]))
int16 = st.one_of(st.integers(-32768, 32767), st.sampled_from([-32768, -1, 0, 1, 255, 256, 32767]))


@st.composite
def ops(draw):
    op = draw(st.sampled_from(["read", "write"]))
    form = draw(st.sampled_from(["word", "word", "bit", "bit", "bfile", "count", "status", "io", "io", "tc"]))
    a = {"ft": None, "file": None, "elem": draw(elems), "bit": None, "count": None, "lower": draw(st.integers(0, 3)) == 0}
    if form == "tc":
        op = "read"
        a.update(ft=draw(st.sampled_from(["T", "C"])), file=draw(files))
        a["ct"] = draw(st.sampled_from(["PRE", "ACC", "EN", "TT", "DN"] if a["ft"] == "T" else ["PRE", "ACC", "CU", "CD", "DN", "OV", "UN", "UA"]))
    elif form == "bfile":
        a.update(ft="B", file=draw(files), bform=draw(st.one_of(st.integers(0, 4095), st.sampled_from([0, 15, 16, 17, 255, 256, 4080, 4095]))))
    elif form == "status":
        a.update(ft="S", bit=draw(st.one_of(st.none(), st.integers(0, 15))))
    elif form == "io":
        a.update(ft=draw(st.sampled_from(["I", "O"])), word=draw(st.one_of(st.none(), st.integers(0, 255))), bit=draw(st.one_of(st.none(), st.none(), st.integers(0, 15))))
    else:
        ft = draw(st.sampled_from(["N", "B", "F", "L"]))
        a.update(ft=ft, file=draw(files))
        if form == "bit" and ft != "F":
            a["bit"] = draw(st.integers(0, 15))
        if form == "count":
            es = 4 if ft in ("F", "L") else 2
            hi = min(255 // es, 256 - a["elem"])   # the byte-size field of a request is one byte
            a["count"] = draw(st.one_of(st.integers(2, hi), st.integers(max(2, hi - 6), hi))) if hi >= 2 else 1
            if a["count"] == 1:
                a["count"] = None
    c = {"op": op, "addr": a, "seed": draw(st.binary(min_size=3, max_size=9)), "fo_policy": draw(st.sampled_from(["std", "large"]))}
    if op == "write":
        code, fno, elem, sub, bit, count = ref_loc(a)
        if bit is not None:
            c["value"] = draw(st.booleans())
        else:
            one = {"F": st.floats(width=32, allow_nan=False, allow_infinity=False), "L": st.integers(-2 ** 31, 2 ** 31 - 1)}.get(a["ft"], int16)
            c["value"] = [draw(one) for _ in range(count + draw(st.sampled_from([0, 0, 2])))] if count > 1 else draw(one)
    return c


@st.composite
def rejects(draw):
    why = draw(st.sampled_from(["letter", "file0", "file256", "elem256", "elem4digit", "bit16", "bit3digit", "bfile4096", "bfile5digit", "io-elem", "s-elem",
                                "io-file", "io-word", "letter-unicode", "digit-unicode", "float-bit", "tc-separator"]))
    ft = draw(st.sampled_from(["N", "B", "F", "L"]))
    f, e = draw(st.integers(1, 255)), draw(st.integers(0, 255))
    if why == "letter":
        s = f"{draw(st.sampled_from(['X', 'Q', 'D', 'M', 'Z', 'H']))}{f}:{e}"
    elif why == "file0":
        s = f"{ft}0:{e}"
    elif why == "file256":
        s = f"{ft}{draw(st.integers(256, 999))}:{e}"
    elif why == "elem256":
        s = f"{ft}{f}:{draw(st.integers(256, 999))}"
    elif why == "elem4digit":
        s = f"{ft}{f}:{draw(st.integers(1000, 9999))}"
    elif why == "bit16":
        s = f"{draw(st.sampled_from(['N', 'B', 'L']))}{f}:{e}/{draw(st.integers(16, 99))}"
    elif why == "bit3digit":
        s = f"{draw(st.sampled_from(['N', 'B', 'L']))}{f}:{e}/{draw(st.integers(100, 999))}"
    elif why == "bfile4096":
        s = f"B{f}/{draw(st.integers(4096, 9999))}"
    elif why == "bfile5digit":
        s = f"B{f}/{draw(st.integers(10000, 99999))}"
    elif why == "io-file":
        # the input file is file 1 and the output file is file 0: any other number names a file that does not exist
        io = draw(st.sampled_from(["I", "O", "i", "o"]))
        n = draw(st.one_of(st.integers(2, 999), st.just(1 if io in "Oo" else 0)))
        s = f"{io}{n}:{draw(st.integers(0, 30))}" + draw(st.sampled_from(["", "/3", ".2"]))
    elif why == "io-word":
        s = f"{draw(st.sampled_from(['I', 'O']))}:{draw(st.integers(0, 30))}.{draw(st.integers(256, 999))}" + draw(st.sampled_from(["", "/3"]))
    elif why == "letter-unicode":
        # letters that only case-fold to a file-type letter are not file types
        s = f"{draw(st.sampled_from(['\u0130', '\u0131', '\u017f', '\u212a']))}{draw(st.sampled_from(['', '7']))}:{e}"
    elif why == "digit-unicode":
        s = f"{ft}{draw(st.sampled_from(['\u0667', '\uff17', '\u0967']))}:{e}"
    elif why == "float-bit":
        # a floating-point element has no addressable bits
        s = f"{draw(st.sampled_from(['F', 'f']))}{f}:{e}/{draw(st.integers(0, 15))}"
    elif why == "tc-separator":
        # the sub-element of a timer / counter is separated by a dot; anything else in its place names nothing
        sub = draw(st.sampled_from(["ACC", "PRE", "EN", "DN", "acc"]))
        s = f"{draw(st.sampled_from(['T', 'C']))}{f}:{draw(st.one_of(st.integers(0, 255), st.integers(10, 255)))}{draw(st.sampled_from(['', ' ', '{', 'x', ':', '0']))}{sub}"
    elif why == "io-elem":
        s = f"{draw(st.sampled_from(['I', 'O']))}:{draw(st.integers(256, 999))}"
    else:
        s = f"S:{draw(st.integers(256, 999))}"
    return {"s": s, "why": why, "op": draw(st.sampled_from(["read", "write"]))}


def plan(tier):
    jobs = []
    k = 16 if tier == "quick" else 64
    for i in range(k):
        jobs.append({"part": "bfile", "lo": i, "step": k, "files": [3] if tier == "quick" else [1, 3, 10, 255]})
    for i in range(8):
        jobs.append({"part": "elembit", "lo": i, "step": 8, "stride": 8 if tier == "quick" else 1})
    jobs.append({"part": "longlived", "requests": 6000 if tier == "quick" else 70000})
    n = 8 if tier == "quick" else 32
    for _ in range(n):
        jobs.append({"part": "ops", "examples": 400 if tier == "quick" else 20000})
        jobs.append({"part": "reject", "examples": 150 if tier == "quick" else 8000})
    return jobs


def run_job(ctx, job):
    part = job["part"]
    if part == "bfile":
        for f in job["files"]:
            for n in range(job["lo"], 4096, job["step"]):
                for op in ("read", "write"):
                    c = {"op": op, "addr": {"ft": "B", "file": f, "elem": 0, "bform": n, "bit": None, "count": None, "lower": False}, "seed": b"\x35\xc9\x07",
                         "value": bool((n >> 3) & 1) ^ (n % 2 == 0)}
                    discs = check_op(c)
                    ctx.case(("bfile", f, n, op), True, ["bfile", "bit", op], sample={"address": render(c["addr"]), "op": op} if n == 4095 else None)
                    for d in discs:
                        ctx.violation(d, "op", c)
        ctx.exhaustive_parts.append("all binary-file bit numbers 0..4095")
    elif part == "elembit":
        for e in range(job["lo"], 256, job["step"] * job["stride"] if job["stride"] > 1 else job["step"]):
            for b in range(16):
                for op in ("read", "write"):
                    c = {"op": op, "addr": {"ft": "N", "file": 7, "elem": e, "bit": b, "count": None, "lower": False}, "seed": b"\x5a\x0f\xc3\x11", "value": bool((e + b) % 2)}
                    discs = check_op(c)
                    ctx.case(("eb", e, b, op), True, ["bit", op])
                    for d in discs:
                        ctx.violation(d, "op", c)
        ctx.exhaustive_parts.append("(element, bit) pairs of an integer file")
    elif part == "longlived":
        for d in check_longlived(job["requests"]):
            ctx.violation(d, "longlived", {"requests": job["requests"]})
        ctx.bulk(job["requests"], [hash(("ll", job["requests"])) & 0xFFFFFFFF, 2], {"long-lived-requests": job["requests"], "write": job["requests"] // 2})
    elif part == "ops":
        hyp_search(ctx, "op", ops(), lambda c: (check_op(c), len(classes(c)) > 1, classes(c)), job["examples"],
                   sample_of=lambda c: {"op": c["op"], "address": render(c["addr"]), "value": c.get("value")})
    else:
        hyp_search(ctx, "reject", rejects(), lambda c: (check_reject(c), True, ["reject", "reject." + c["why"]]), job["examples"])


def replay(ctx, kind, case):
    if kind == "longlived":
        return check_longlived(case["requests"])
    return check_reject(case) if kind == "reject" else check_op(case)
