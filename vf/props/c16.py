"""C16 - Device identities decode faithfully."""
import struct

from hypothesis import strategies as st

from .. import harness
from .. import refcodec as R
from ..refplc import RefPLC, RefTarget
from ..runner import Disc, hyp_search
from .c14 import MINI_PROJECT

PID = "C16"
LEVEL = "exploration"
TECHNIQUE = ("Hypothesis-generated identities (all tabled vendor / product-type ids exhaustively, unknown ids sampled) delivered as ListIdentity replies "
             "(TCP and the datagram loop of discover) and as Identity objects through UCMM / Unconnected Send; oracle = field-by-field equality with "
             "the identity configured in the reference target")
RULE = ("identity = (vendor id, product-type id 0..65535, product code, major/minor 0..255, 2 status bytes, serial 0..2^32-1 with leading-zero bias, "
        "product name of length 0..255 over Latin-1, IPv4 address, state 0..255, encapsulation version) x entry point in list_identity / "
        "_list_identity / discover datagram parsing / get_plc_info (UCMM for Micro800, Unconnected Send otherwise) / get_module_info; non-trivial = "
        "unknown id, name length 0 or 255, non-ASCII name, or serial < 2^28; distinct = hash of (identity, entry point)")
LEVEL_TEXT = ("Each generated identity is served by the reference target through every entry point and compared field by field; every vendor and "
              "product-type id present in the library's tables is used at least once (the tables are data for the id -> text mapping).")
ASSUMPTIONS = [
    "vendor / product-type texts come from the library's own tables (used as data); the property is about which id is looked up and the UNKNOWN fallback",
    "the ListIdentity item layout is EtherNet/IP Vol 2 2-4.2 (socket address in network byte order)",
]
FLOORS = {"quick": {"list_identity": 1500, "discover": 500, "plc_info": 400, "module_info": 400, "known-vendor-ids": 1000},
          "thorough": {"list_identity": 30000, "discover": 15000, "plc_info": 4000, "module_info": 4000}}


_TABLES = []


def tables():
    """id -> name of every registered vendor / product type: a frozen copy (vf/data/identity_names.json, taken from the pinned tree),
    not the library's live tables - a registered id that the library stops resolving must show"""
    if not _TABLES:
        import json
        import os
        d = json.load(open(os.path.join(os.path.dirname(os.path.dirname(os.path.abspath(__file__))), "data", "identity_names.json")))
        _TABLES.append(({int(k): v for k, v in d["vendors"].items()}, {int(k): v for k, v in d["product_types"].items()}))
    return _TABLES[0]


def expected(idn, with_list_fields):
    VENDORS, PRODUCT_TYPES = tables()
    d = {"vendor": VENDORS.get(idn["vendor"], "UNKNOWN"), "product_type": PRODUCT_TYPES.get(idn["product_type"], "UNKNOWN"),
         "product_code": idn["product_code"], "revision": {"major": idn["major"], "minor": idn["minor"]}, "status": bytes(idn["status"]),
         "serial": "%08x" % idn["serial"], "product_name": idn["product_name"]}
    if with_list_fields:
        d.update({"encap_protocol_version": idn.get("encap_version", 1), "ip_address": idn["ip"], "state": idn["state"]})
    return d


def diff(got, want, where):
    if not isinstance(got, dict):
        return [Disc(f"{where}.notdict", f"returned {got!r}")]
    out = []
    for k, v in want.items():
        if got.get(k) != v:
            out.append(Disc(f"{where}.{k}", f"{k}: got {got.get(k)!r}, device reports {v!r}"))
    extra = set(got) - set(want) - {"keyswitch", "name", "programs", "tasks", "modules"}
    if extra:
        out.append(Disc(f"{where}.extra-keys", f"{sorted(extra)}"))
    return out


class FakeUDP:
    def __init__(self, shim):
        self.shim = shim

    def settimeout(self, t):
        pass

    def setsockopt(self, *a):
        pass

    def bind(self, addr):
        self.shim.bound.append(addr)

    def sendto(self, msg, addr):
        self.shim.sent.append((bytes(msg), addr))
        return len(msg)

    def recv(self, n):
        if self.shim.datagrams:
            return self.shim.datagrams.pop(0)[:n]
        raise self.shim.timeout("timed out")

    def close(self):
        pass


class SocketShim:
    """stands where the `socket` module is imported in pycomm3.cip_driver (UDP discover only)"""
    AF_INET, SOCK_DGRAM, SOL_SOCKET, SO_BROADCAST = 2, 2, 1, 6

    class AddressFamily:
        AF_INET, AF_INET6 = 2, 10

    class timeout(OSError):
        pass

    def __init__(self, datagrams, interfaces=(), deliver_at=0):
        self.plan = [[] for _ in range(deliver_at)] + [list(datagrams)]   # the k-th socket created receives plan[k]
        self.datagrams = []
        self.interfaces = list(interfaces)
        self.sent = []
        self.bound = []
        self.created = 0

    def socket(self, *a):
        self.datagrams = self.plan[self.created] if self.created < len(self.plan) else []
        self.created += 1
        return FakeUDP(self)

    def gethostname(self):
        return "verif-host"

    def getaddrinfo(self, host, port, *a):
        out = [(10, 1, 6, "", ("fe80::1", 0, 0, 0))]
        for ip in self.interfaces:
            out.append((2, 1, 6, "", (ip, 0)))
            out.append((2, 2, 17, "", (ip, 0)))
        return out


def list_identity_frame(idn, session=0, ctx=b"\x00" * 8):
    item = R.encode_list_identity_item(idn)
    data = struct.pack("<HHH", 1, 0x0C, len(item)) + item
    return struct.pack("<HHII8sI", 0x63, len(data), session, 0, ctx, 0) + data


def check_identity(c):
    from pycomm3 import CIPDriver, LogixDriver
    import pycomm3.cip_driver as cd
    from pycomm3.exceptions import PycommError
    idn = dict(c["identity"])
    ep = c["entry"]
    discs = []
    try:
        if ep in ("list_identity", "_list_identity"):
            tgt = RefTarget({"identity": idn})
            harness.install(tgt)
            try:
                if ep == "list_identity":
                    got = CIPDriver.list_identity("10.0.0.5")
                    if tgt.registered or tgt.connections:
                        discs.append(Disc("list_identity.session-left-open", "target still holds the session after list_identity"))
                else:
                    d = CIPDriver("10.0.0.5")
                    d.open()
                    got = d._list_identity()
                    if c.get("then"):
                        tgt.identity.update(dict(c["then"]))
                        got_b = d._list_identity()
                        discs += [Disc("again." + x.bucket, x.detail + " [second query after the device's identity changed]")
                                  for x in diff(got_b, expected(tgt.identity, True), ep)]
                        tgt.identity.update(idn)
                    d.close()
            finally:
                harness.uninstall()
            discs += diff(got, expected(tgt.identity, True), ep)
        elif ep == "discover":
            others = [dict(o) for o in c.get("others", [])]
            grams = [list_identity_frame(dict(RefTarget({"identity": i}).identity)) for i in [idn] + others]
            if c.get("junk"):
                grams.insert(1, bytes(c["junk"]))
            # the public entry: discover() looks up the host's IPv4 interfaces, broadcasts on each, and falls back to an unbound socket
            ifs = list(c.get("interfaces", ["10.0.0.1"]))
            shim = SocketShim(grams, ifs, 2 * len(ifs) if c.get("fallback") else (2 * (c.get("at", 0) % len(ifs)) if ifs else 0))
            real = cd.socket
            cd.socket = shim
            try:
                devs = CIPDriver.discover()
            except PycommError as e:
                devs = None
                discs.append(Disc("discover.raises", repr(e)))
            finally:
                cd.socket = real
            if devs is None:
                return discs
            if not shim.sent or shim.sent[0][0][:2] != b"\x63\x00" or len(shim.sent[0][0]) != 24:
                discs.append(Disc("discover.request", f"broadcast datagram {shim.sent[:1]!r}"))
            if not devs:
                discs.append(Disc("discover.none", "no device parsed from the first datagram"))
            else:
                discs += diff(devs[0], expected(RefTarget({"identity": idn}).identity, True), "discover")
                want_n = 1 if c.get("junk") else 1 + len(others)
                if not c.get("junk") and len(devs) != want_n:
                    discs.append(Disc("discover.count", f"{len(devs)} devices from {want_n} datagrams"))
        elif ep == "plc_info":
            tgt = RefPLC(MINI_PROJECT, {"/t": b"\x00" * 4}, {"identity": idn, "expected_route": b"" if idn["product_name"].startswith("2080") else b"\x01\x00"})
            harness.install(tgt)
            try:
                plc = LogixDriver("10.0.0.5", init_tags=False)
                plc.open()
                got = plc.get_plc_info()
                transport = [e["transport"] for e in tgt.log if e["segs"] and e["segs"][0][:2] == ("class", 1)]
                plc.close()
            finally:
                harness.uninstall()
            discs += diff(got, expected(tgt.identity, False), "plc_info")
            micro = idn["product_name"].startswith("2080")
            if transport and (transport[-1] == "ucsend") == micro:
                discs.append(Disc("plc_info.transport", f"identity fetched over {transport[-1]} for product {idn['product_name']!r}"))
        else:
            mod = dict(c["identity"])
            tgt = RefPLC(MINI_PROJECT, {"/t": b"\x00" * 4}, {"rack": {c["slot"]: mod}, "expected_route": b"\x01\x00"})
            harness.install(tgt)
            try:
                plc = LogixDriver("10.0.0.5", init_tags=False)
                plc.open()
                got = plc.get_module_info(c["slot"])
                discs += diff(got, expected(RefTarget({"identity": mod}).identity, False), "module_info")
                # the module in that slot changes (status word / hot swap): the same driver must report what the device says now
                if c.get("then"):
                    mod2 = dict(c["then"])
                    tgt.rack[c["slot"]] = mod2
                    if c.get("reconnect"):
                        plc.close()
                        plc.open()
                    got2 = plc.get_module_info(c["slot"])
                    discs += [Disc("again." + d.bucket, d.detail + " [second query of the same slot after the module changed]")
                              for d in diff(got2, expected(RefTarget({"identity": mod2}).identity, False), "module_info")]
                plc.close()
            finally:
                harness.uninstall()
    except PycommError as e:
        discs.append(Disc(f"{ep}.raises.{type(e).__name__}", f"{e!r} <- {e.__cause__!r}"[:500]))
    except Exception as e:
        from ..scenario import where
        if where(e) == "harness":
            raise
        discs.append(Disc(f"{ep}.foreign.{type(e).__name__}", repr(e)[:300]))
    return discs


def names():
    latin = st.characters(min_codepoint=0, max_codepoint=255)
    # names whose bytes also happen to be valid UTF-8 / UTF-16: a decoder that guesses the encoding shows itself on these
    other = st.text(alphabet=st.characters(min_codepoint=0x20, max_codepoint=0x2FFF, blacklist_categories=["Cs"]), min_size=1, max_size=30)
    as_utf8 = other.map(lambda t: t.encode("utf-8")[:255].decode("latin-1"))
    as_utf16 = other.map(lambda t: ("\ufeff" + t).encode("utf-16-le")[:254].decode("latin-1"))
    return st.one_of(st.text(alphabet=latin, max_size=40), st.sampled_from(["", "1756-L83E/B", "x" * 255, "é" * 255, "1769-L33ER", "\x00"]),
                     st.integers(0, 255).flatmap(lambda n: st.text(alphabet=latin, min_size=n, max_size=n)), as_utf8, as_utf16)


@st.composite
def identities(draw, micro_ok=False):
    VENDORS, PRODUCT_TYPES = tables()
    vend = draw(st.one_of(st.sampled_from(sorted(k for k in VENDORS if isinstance(k, int))), st.integers(0, 65535)))
    ptype = draw(st.one_of(st.sampled_from(sorted(k for k in PRODUCT_TYPES if isinstance(k, int))), st.integers(0, 65535)))
    name = draw(names())
    if not micro_ok and name.startswith("2080"):
        name = "x" + name[1:]
    return {"vendor": vend, "product_type": ptype, "product_code": draw(st.integers(0, 65535)), "major": draw(st.integers(0, 255)),
            "minor": draw(st.integers(0, 255)), "status": draw(st.binary(min_size=2, max_size=2)),
            "serial": draw(st.one_of(st.integers(0, 0xFFFFFFFF), st.integers(0, 0xFFFF), st.sampled_from([0, 1, 0xFFFFFFFF, 0x0FFFFFFF, 0x10000000]))),
            "product_name": name, "ip": ".".join(str(draw(st.integers(0, 255))) for _ in range(4)), "state": draw(st.integers(0, 255)),
            "encap_version": draw(st.sampled_from([1, 1, 2, 65535]))}


@st.composite
def cases(draw):
    entry = draw(st.sampled_from(["list_identity", "_list_identity", "discover", "discover", "plc_info", "module_info"]))
    idn = draw(identities(micro_ok=entry == "plc_info"))
    c = {"identity": idn, "entry": entry}
    if entry == "plc_info":
        idn["major"] = max(idn["major"], 1)
        if draw(st.integers(0, 3)) == 0:
            idn["product_name"] = "2080-" + idn["product_name"][:20]
    if entry == "module_info":
        c["slot"] = draw(st.integers(1, 255))
        if draw(st.booleans()):
            c["then"] = draw(identities())
            c["reconnect"] = draw(st.booleans())
    if entry == "_list_identity" and draw(st.booleans()):
        c["then"] = draw(identities())
    if entry == "discover":
        c["others"] = [draw(identities()) for _ in range(draw(st.integers(0, 2)))]
        c["junk"] = draw(st.one_of(st.none(), st.none(), st.binary(max_size=30)))
        c["interfaces"] = draw(st.sampled_from([["10.0.0.1"], ["10.0.0.1", "192.168.1.5"], [], ["172.16.0.9", "10.0.0.1", "192.168.7.7"]]))
        c["at"] = draw(st.integers(0, 2))
        c["fallback"] = draw(st.integers(0, 3)) == 0
    return c


def nontrivial(c):
    VENDORS, PRODUCT_TYPES = tables()
    i = c["identity"]
    return (i["vendor"] not in VENDORS or i["product_type"] not in PRODUCT_TYPES or len(i["product_name"]) in (0, 255)
            or any(ord(ch) > 127 for ch in i["product_name"]) or i["serial"] < 2 ** 28)


def plan(tier):
    jobs = [{"part": "tables"}]
    n = 12 if tier == "quick" else 64
    for _ in range(n):
        jobs.append({"part": "gen", "examples": 300 if tier == "quick" else 12000})
    return jobs


def run_job(ctx, job):
    if job["part"] == "tables":
        VENDORS, PRODUCT_TYPES = tables()
        base = {"product_code": 7, "major": 3, "minor": 9, "status": b"\x12\x34", "serial": 0x0000BEEF, "product_name": "Dev", "ip": "10.1.2.3", "state": 3}
        for v in sorted(k for k in VENDORS if isinstance(k, int)):
            c = {"identity": dict(base, vendor=v, product_type=12), "entry": "_list_identity"}
            for d in check_identity(c):
                ctx.violation(d, "identity", c)
            ctx.case(("vendor", v), True, ["list_identity", "known-vendor-ids"])
        for t in sorted(k for k in PRODUCT_TYPES if isinstance(k, int)):
            c = {"identity": dict(base, vendor=1, product_type=t), "entry": "_list_identity"}
            for d in check_identity(c):
                ctx.violation(d, "identity", c)
            ctx.case(("ptype", t), True, ["list_identity", "known-product-types"])
        # "encoding an identity and decoding it again is the identity": for every registered id as well
        from .c06 import check_ident
        for idn in [dict(base, vendor=v, product_type=12) for v in sorted(VENDORS)] + [dict(base, vendor=1, product_type=t) for t in sorted(PRODUCT_TYPES)]:
            for d in check_ident(idn):
                ctx.violation(Disc("tabled." + d.bucket, d.detail), "ident", {k: v for k, v in idn.items()})
            ctx.case(("reencode", idn["vendor"], idn["product_type"]), True, ["identity-reencode"])
        ctx.exhaustive_parts.append("every tabled vendor id and product-type id")
        return
    hyp_search(ctx, "identity", cases(), lambda c: (check_identity(c), nontrivial(c), [{"_list_identity": "list_identity"}.get(c["entry"], c["entry"])]), job["examples"])


def replay(ctx, kind, case):
    if kind == "ident":
        from .c06 import check_ident
        return check_ident(case)
    return check_identity(case)
