"""C13 - Replies are classified by their status words; bad replies cannot pass or crash."""
import os
import struct

from hypothesis import strategies as st

from .. import harness
from .. import scenario as S
from ..refplc import RefTarget
from ..runner import Disc, hyp_search
from . import c01

PID = "C13"
LEVEL = "exploration"
TECHNIQUE = ("exhaustive status matrix (general status 0..255 x extended-status layouts x reply services x request kinds x encapsulation status) at "
             "packet level, Hypothesis-driven forced statuses and reply corruptions (every truncation point, byte flips, random bytes) at driver "
             "level, coverage-guided fuzzing (atheris) of arbitrary reply bytes for 14 request kinds at packet level; "
             "oracle = total classification function + falsy-with-text + only library exceptions")
RULE = ("matrix case = (request kind in generic connected/unconnected, read, read-fragmented, write, write-fragmented, read-modify-write, "
        "multi-service member vectors, register session, list identity; reply service; general status 0..255; 0/1/2 extended words; "
        "encapsulation status); driver case = generated read/write/generic scenario with a forced status on the n-th request / a service / the "
        "multi-service wrapper, or with the k-th reply truncated at every point / flipped / replaced by random bytes; non-trivial = status != 0, "
        "or corrupted reply, or mixed member statuses; fuzz case = (request kind incl. array / string / structure reads and two Multiple Service "
        "Packets, arbitrary reply bytes up to 160), non-trivial when the reply holds at least a whole encapsulation header; distinct = hash of the case")
LEVEL_TEXT = ("The status matrix is enumerated completely at packet level against a reference classification function; public calls are then "
              "driven with forced statuses and corrupted replies, where only falsy results / library exceptions are acceptable and a reply "
              "shorter than its status words must never be reported as success.")
ASSUMPTIONS = [
    "status 6 must count as success for Read-Tag-Fragmented (0x52) and Get-Instance-Attribute-List (0x55) replies on a connection, must not for "
    "Read Tag / Write Tag / Read-Modify-Write / Get-Attribute-Single and other non-continuing services, and is not asserted for 0x03, 0x0A, 0x53",
    "status texts are taken from the library's SERVICE_STATUS / EXTEND_CODES tables used as data",
]
FLOORS = {"quick": {"matrix": 100000, "forced": 300, "corrupt": 3000}, "thorough": {"matrix": 100000, "forced": 8000, "corrupt": 100000}}

CONT_REQUIRED = {0x52, 0x55}
CONT_UNASSERTED = {0x03, 0x0A, 0x53}
KINDS = ["gconn", "gunconn", "read", "readfrag", "write", "writefrag", "rmw", "register", "listidentity"]
REPLY_SERVICES = [0x01, 0x03, 0x0A, 0x0E, 0x10, 0x4C, 0x4D, 0x4E, 0x52, 0x53, 0x54, 0x55, 0x5B]


def enc_frame(cmd, body, session=0x1234, estatus=0):
    return struct.pack("<HHII8sI", cmd, len(body), session, estatus, b"_pycomm_", 0) + body


def cip_reply(service, status, ext, data):
    return bytes([service | 0x80, 0, status, len(ext)]) + b"".join(struct.pack("<H", e) for e in ext) + data


def unit_frame(cip, estatus=0, seq=7):
    cpf = struct.pack("<IHH", 0, 0, 2) + struct.pack("<HHI", 0xA1, 4, 0x99) + struct.pack("<HH", 0xB1, len(cip) + 2) + struct.pack("<H", seq) + cip
    return enc_frame(0x70, cpf, estatus=estatus)


def rr_frame(cip, estatus=0):
    cpf = struct.pack("<IHH", 0, 0, 2) + struct.pack("<HH", 0, 0) + struct.pack("<HH", 0xB2, len(cip)) + cip
    return enc_frame(0x6F, cpf, estatus=estatus)


def make_request(kind):
    from pycomm3 import packets as P
    from pycomm3.cip import DINT
    info = {"tag_type": "atomic", "data_type": "DINT", "data_type_name": "DINT", "type_class": DINT, "instance_id": 5}
    if kind == "gconn":
        return P.GenericConnectedRequestPacket(sequence=1, service=0x0E, class_code=1, instance=1)
    if kind == "gunconn":
        return P.GenericUnconnectedRequestPacket(service=0x0E, class_code=1, instance=1)
    if kind == "read":
        return P.ReadTagRequestPacket(1, "t", 1, info, 0)
    if kind == "readfrag":
        return P.ReadTagFragmentedRequestPacket(1, "t", 1, info, 0)
    if kind == "write":
        return P.WriteTagRequestPacket(1, "t", 1, info, 0, value=b"\x01\x00\x00\x00")
    if kind == "writefrag":
        return P.WriteTagFragmentedRequestPacket(1, "t", 1, info, 0, value=b"\x01\x00\x00\x00")
    if kind == "rmw":
        r = P.ReadModifyWriteRequestPacket(1, "t", info, -1)
        r.set_bit(1, True, 0)
        return r
    if kind == "register":
        return P.RegisterSessionRequestPacket(b"\x01\x00")
    if kind == "listidentity":
        return P.ListIdentityRequestPacket()
    raise KeyError(kind)


def expected_success(kind, rsvc, status, estatus):
    """True / False / None (not asserted)"""
    if estatus != 0:
        return False
    if kind in ("register", "listidentity"):
        return True
    if status == 0:
        return True
    if status == 6:
        if kind == "gunconn":
            return None if rsvc in CONT_REQUIRED | CONT_UNASSERTED else False
        if rsvc in CONT_REQUIRED:
            return True
        if rsvc in CONT_UNASSERTED:
            return None
        return False
    return False


def status_text_ok(err, status, ext):
    from pycomm3.cip import SERVICE_STATUS, EXTEND_CODES
    text = SERVICE_STATUS.get(status)
    if text is not None:
        if text not in err:
            return f"lacks the status text {text!r}"
    elif f"{status:02x}" not in err.lower():
        return f"lacks the hex code {status:02x}"
    if len(ext) == 1 and status in EXTEND_CODES and ext[0] in EXTEND_CODES[status]:
        if EXTEND_CODES[status][ext[0]] not in err:
            return f"lacks the extended status text {EXTEND_CODES[status][ext[0]]!r}"
    elif len(ext) == 1 and f"{ext[0]:x}" not in err.lower():
        return f"lacks the extended status {ext[0]:#06x} (present in the reply, not in the tables: its hex code is expected)"
    return None


def check_matrix(kind, rsvc, status, ext, estatus, header_only=False):
    from pycomm3.exceptions import PycommError
    req = make_request(kind)
    data = b""
    if status in (0, 6) and kind in ("read", "readfrag") :
        data = b"\xc4\x00" + struct.pack("<i", -77)
    cip = cip_reply(rsvc, status, ext, data)
    if kind == "register":
        frame = enc_frame(0x65, b"\x01\x00\x00\x00", session=0x77, estatus=estatus)
    elif kind == "listidentity":
        from ..refcodec import encode_list_identity_item
        from ..refplc import DEFAULT_IDENTITY
        item = encode_list_identity_item(DEFAULT_IDENTITY)
        frame = enc_frame(0x63, struct.pack("<HHH", 1, 0x0C, len(item)) + item, estatus=estatus)
    elif kind == "gunconn":
        frame = rr_frame(cip, estatus)
    else:
        frame = unit_frame(cip, estatus)
    if header_only:
        frame = frame[:24][:2] + b"\x00\x00" + frame[4:24]
    try:
        resp = req.response_class(req, frame)
        ok = bool(resp)
        err = resp.error
    except PycommError as e:
        return [Disc(f"matrix.raises.{kind}", f"{kind} svc={rsvc:#x} status={status:#x}: {e!r}")]
    except Exception as e:
        return [Disc(f"matrix.foreign.{type(e).__name__}.{kind}", f"{kind} svc={rsvc:#x} status={status:#x} ext={ext} estatus={estatus:#x}: {e!r}")]
    want = False if header_only and kind not in () else expected_success(kind, rsvc, status, estatus)
    if header_only and estatus == 0:
        want = False if kind not in ("register",) else None
    tagd = f"{kind} reply-service={rsvc:#x} status={status:#x} ext={ext} encap-status={estatus:#x} header_only={header_only}"
    if want is True and not ok:
        return [Disc(f"matrix.success-rejected.{kind}.{status:#x}", f"{tagd}: falsy, error={err!r}")]
    if want is False:
        if ok:
            return [Disc(f"matrix.error-accepted.{kind}.{'estatus' if estatus else hex(status)}", f"{tagd}: reported as success")]
        if not err or not str(err).strip():
            return [Disc(f"matrix.no-error-text.{kind}", f"{tagd}: falsy without error text")]
        if estatus == 0 and not header_only and kind not in ("register", "listidentity") and status != 0:
            why = status_text_ok(str(err), status, ext)
            if why:
                return [Disc(f"matrix.error-text.{kind}", f"{tagd}: error {err!r} {why}")]
    return []


def check_multi(statuses, wrapper_status):
    """multi-service reply with per-member statuses: exactly the failed members are falsy"""
    from pycomm3 import packets as P
    from pycomm3.cip import DINT
    info = {"tag_type": "atomic", "data_type": "DINT", "data_type_name": "DINT", "type_class": DINT, "instance_id": 5}
    reqs = [P.ReadTagRequestPacket(1, f"t{i}", 1, info, i) for i in range(len(statuses))]
    for r in reqs:
        r.build_message()
    mreq = P.MultiServiceRequestPacket(1, reqs)
    members = [cip_reply(0x4C, s, e, b"\xc4\x00" + struct.pack("<i", i) if s == 0 else b"") for i, (s, e) in enumerate(statuses)]
    n = len(members)
    body = struct.pack("<H", n)
    pos = 2 + 2 * n
    for m in members:
        body += struct.pack("<H", pos)
        pos += len(m)
    body += b"".join(members)
    frame = unit_frame(cip_reply(0x0A, wrapper_status, [], body))
    try:
        resp = mreq.response_class(mreq, frame)
        out = [(bool(r), r.error, getattr(r, "value", None)) for r in resp.responses]
    except Exception as e:
        return [Disc(f"multi.raises.{type(e).__name__}", f"statuses={statuses}: {e!r}")]
    if len(out) != n:
        return [Disc("multi.count", f"{n} member replies parsed into {len(out)} responses")]
    for i, ((s, e), (ok, err, val)) in enumerate(zip(statuses, out)):
        if s == 0 and (not ok or val != i):
            return [Disc("multi.member.success-rejected", f"member {i} of {statuses}: ok={ok} value={val!r} error={err!r}")]
        if s != 0 and s != 6:
            if ok:
                return [Disc("multi.member.error-accepted", f"member {i} status {s:#x} of {statuses} reported as success")]
            why = status_text_ok(str(err or ""), s, e)
            if why:
                return [Disc("multi.member.error-text", f"member {i} status {s:#x} ext {e}: error {err!r} {why}")]
    return []


# ------------------------------------------------------------------------------------------------
# driver level: forced statuses and corrupted replies
# ------------------------------------------------------------------------------------------------
class Corruptor:
    """wraps a target: the k-th reply is corrupted (truncate / flip / random)"""

    def __init__(self, inner, k, mode, arg):
        self.inner, self.k, self.mode, self.arg = inner, k, mode, arg
        self.n = 0
        self.applied = None
        self.current_op = "open"
        self.applied_during = None

    def handle(self, frame):
        reply = self.inner.handle(frame)
        if reply is None:
            return None
        self.n += 1
        if self.n - 1 != self.k:
            return reply
        if self.mode == "truncate":
            cut = self.arg % (len(reply) + 1)
            out = reply[:cut]
        elif self.mode == "flip":
            pos, val = self.arg
            b = bytearray(reply)
            b[pos % len(b)] ^= (val or 1)
            out = bytes(b)
        else:
            out = bytes(self.arg)
        self.applied = (len(reply), out)
        self.applied_during = self.current_op
        return out

    def tcp_closed(self):
        self.inner.tcp_closed()

    def __getattr__(self, name):
        return getattr(self.inner, name)


def run_ops(plc_factory, ops, discs, label, cor=None):
    """execute public calls; only PycommError may escape"""
    from pycomm3.exceptions import PycommError
    results = []
    plc = None
    try:
        plc = plc_factory()
    except PycommError:
        return None, results
    except Exception as e:
        if S.where(e) == "harness":
            raise
        discs.append(Disc(f"{label}.open.foreign.{type(e).__name__}.{S.where(e)}", repr(e)[:300]))
        return None, results
    for name, fn in ops:
        if cor is not None:
            cor.current_op = name
        try:
            results.append((name, fn(plc)))
        except PycommError:
            results.append((name, PycommError))
        except Exception as e:
            if S.where(e) == "harness":
                raise
            discs.append(Disc(f"{label}.{name}.foreign.{type(e).__name__}.{S.where(e)}", repr(e)[:300]))
            results.append((name, None))
    if cor is not None:
        cor.current_op = "close"
    try:
        plc.close()
    except PycommError:
        pass
    except Exception as e:
        if S.where(e) == "harness":
            raise
        discs.append(Disc(f"{label}.close.foreign.{type(e).__name__}.{S.where(e)}", repr(e)[:300]))
    return plc, results


def check_corrupt(case):
    """reads/writes/generic on a LogixDriver while the k-th reply is corrupted"""
    from pycomm3 import LogixDriver
    from pycomm3.exceptions import PycommError
    discs = []
    p, mem, tgt = S.build_target(case)
    cor = Corruptor(tgt, case["k"], case["mode"], case["arg"])
    harness.install(cor)
    # the step budget grows with what the upload and the requests legitimately move (see harness.open_logix / scenario._traffic_bound)
    try:
        frag = max(1, getattr(tgt, "tmpl_frag", 480))
        blobs = sum(len(p.template_blob(u)) // frag + 4 for u in p.data["udts"])
        harness.CURRENT["budget"] += 3 * (blobs + 4 * len(p.data["tags"]) + 64) + S._traffic_bound(p, case["reqs"])
    except Exception:
        pass
    discs += []
    names = [S.render(r) for r in case["reqs"]]
    holder = []

    def oversized():
        """largest size any uploaded type definition claims (bytes), if a corrupted reply made one absurd (> 16 MB)"""
        big = 0
        try:
            for dt in list(getattr(holder[0], "_data_types", {}).values()) if holder else []:
                if isinstance(dt, dict):
                    big = max(big, int(dt.get("template", {}).get("structure_size") or 0))
                    tc = dt.get("type_class")
                    big = max(big, int(getattr(tc, "size", 0) or 0))
        except Exception:
            pass
        return big if big > (1 << 24) else 0

    try:
        def factory():
            plc = LogixDriver("192.168.1.10")
            holder.append(plc)
            plc.open()
            return plc
        if case["op"] == "read":
            ops = [("read", lambda plc: plc.read(*names))]
        else:
            pairs = [(S.render(r), r["value"]) for r in case["reqs"]]
            ops = [("write", lambda plc: plc.write(*pairs) if len(pairs) > 1 else plc.write(pairs[0][0], pairs[0][1]))]
        ops.append(("generic", lambda plc: plc.generic_message(service=0x0E, class_code=1, instance=1, attribute=1, connected=True)))
        ops.append(("time", lambda plc: plc.get_plc_time()))
        try:
            plc, results = run_ops(factory, ops, discs, "corrupt", cor)
        except harness.StepBudgetExceeded:
            big = oversized()
            if big:
                # one root cause, two faces (which one shows depends on the memory available): see KNOWN_FINDINGS.txt
                discs.append(Disc("corrupt.oversized-type-definition.foreign.MemoryError.or-endless-transfer", f"a type definition claims {big} bytes after the corrupted reply #{case['k']}: {cor.current_op} keeps sending fragments of a value of that size"))
            else:
                discs.append(Disc(f"corrupt.nonterminating.{cor.current_op or 'open'}", f"after the corrupted reply #{case['k']} ({case['mode']} {case['arg']}) the driver kept sending requests during {cor.current_op or 'open'} (step budget exceeded)"))
            return discs
        big = oversized()
        if big and any(".foreign.MemoryError." in d.bucket for d in discs):
            discs[:] = [d for d in discs if ".foreign.MemoryError." not in d.bucket] + \
                [Disc("corrupt.oversized-type-definition.foreign.MemoryError.or-endless-transfer", f"a type definition claims {big} bytes after the corrupted reply #{case['k']}: MemoryError escaped a public call")]
        # a reply cut before its status words (encapsulation status at 8-11, CIP status at 42 / 48) is never reported as success:
        # the call that consumed it must not come back all-truthy
        if cor.applied is not None and case["mode"] == "truncate" and len(cor.applied[1]) < 43 and cor.applied_during not in (None, "open"):
            for name, res in results:
                if name == cor.applied_during and res is not PycommError and res is not None:
                    tags = res if isinstance(res, list) else [res]
                    if tags and all(bool(t) for t in tags):
                        discs.append(Disc(f"corrupt.short-reply-success.{name}", f"the reply consumed by {name} was cut to {len(cor.applied[1])} bytes, yet every result is truthy: {str(tags[:2])[:200]}"))
        # a reply too short to contain its status words is never reported as success: a RegisterSession reply (the
        # first reply of the session) cut before its status word must not leave the driver with a session
        if cor.applied is not None and case["mode"] == "truncate" and case["k"] == 0:
            full_len, out = cor.applied
            if len(out) < 12 and cor.inner.log:
                discs.append(Disc("corrupt.short-register-accepted", f"RegisterSession reply cut to {len(out)} bytes, yet the driver went on to send CIP requests"))
    finally:
        harness.uninstall()
    return discs + canaries()


def check_short_reply(kind, cut, session=0x1234):
    """packet level: a reply cut before its status words is never truthy"""
    req = make_request(kind)
    data = b"\xc4\x00" + struct.pack("<i", 5)
    if kind == "register":
        frame = enc_frame(0x65, b"\x01\x00\x00\x00", session=session)
        status_end = 12      # the encapsulation status is the only status word of this reply
    elif kind == "listidentity":
        from ..refcodec import encode_list_identity_item
        from ..refplc import DEFAULT_IDENTITY
        item = encode_list_identity_item(DEFAULT_IDENTITY)
        frame = enc_frame(0x63, struct.pack("<HHH", 1, 0x0C, len(item)) + item, session=session)
        status_end = 12
    else:
        cip = cip_reply({"gconn": 0x0E, "gunconn": 0x0E, "read": 0x4C, "readfrag": 0x52, "write": 0x4D, "writefrag": 0x53, "rmw": 0x4E}[kind], 0, [],
                        data if kind in ("read", "readfrag") else b"")
        frame = rr_frame(cip) if kind == "gunconn" else unit_frame(cip)
        status_end = 44 if kind == "gunconn" else 50
    frame = frame[:cut]
    try:
        resp = req.response_class(req, frame)
        ok = bool(resp)
    except Exception as e:
        from pycomm3.exceptions import PycommError
        if isinstance(e, PycommError):
            return []
        return [Disc(f"short.foreign.{type(e).__name__}.{kind}", f"{kind} reply cut at {cut}: {e!r}")]
    if ok and cut < status_end - 1:
        return [Disc(f"short.accepted.{kind}", f"{kind} reply cut at {cut} bytes (status words end at {status_end}) reported as success")]
    return []


# ------------------------------------------------------------------------------------------------
# arbitrary reply bytes at packet level (driven by atheris, see vf/fuzz_reply.py; also replayable)
# ------------------------------------------------------------------------------------------------
FUZZ_KINDS = ["gconn", "gunconn", "read", "readfrag", "write", "writefrag", "rmw", "register", "listidentity",
              "read-array", "read-string", "read-struct", "multi3", "multi-mixed"]


def _fuzz_request(kind):
    from pycomm3 import packets as P
    from pycomm3.cip import DINT, INT, SINT
    from pycomm3.custom_types import StructTag, FixedSizeString
    if kind in ("gconn", "gunconn", "read", "readfrag", "write", "writefrag", "rmw", "register", "listidentity"):
        return make_request(kind)
    dint = {"tag_type": "atomic", "data_type": "DINT", "data_type_name": "DINT", "type_class": DINT, "instance_id": 5}
    if kind == "read-array":
        info = dict(dint, type_class=DINT[5], dimensions=[5, 0, 0], dim=1)
        return P.ReadTagRequestPacket(1, "arr", 5, info, 0)
    if kind in ("read-string", "read-struct"):
        if kind == "read-string":
            tc = FixedSizeString(84, capacity_=82)
            dt = {"name": "STRING", "string": 82, "attributes": ["LEN", "DATA"], "template": {"structure_size": 88, "structure_handle": 0x0FCE}, "type_class": tc, "internal_tags": {}}
        else:
            tc = StructTag((DINT("a"), 0), (SINT("ZZZZZZZZZZhost"), 4), (INT[2]("w"), 6), bit_members={"f": (4, 3)}, private_members={"ZZZZZZZZZZhost"}, struct_size=12)
            dt = {"name": "U", "string": None, "attributes": ["a", "f", "w"], "template": {"structure_size": 12, "structure_handle": 0x1234}, "type_class": tc, "internal_tags": {}}
        info = {"tag_type": "struct", "data_type": dt, "data_type_name": dt["name"], "type_class": tc, "instance_id": 9}
        return P.ReadTagRequestPacket(1, "s", 1, info, 0)
    reqs = [P.ReadTagRequestPacket(1, f"t{i}", 1, dint, i) for i in range(3)]
    if kind == "multi-mixed":
        reqs[1] = P.WriteTagRequestPacket(1, "t1", 1, dint, 1, value=b"\x01\x00\x00\x00")
    for r in reqs:
        r.build_message()
    return P.MultiServiceRequestPacket(1, reqs)


def check_reply_bytes(ki, frame):
    """any bytes as the reply to a request of kind FUZZ_KINDS[ki]: building the response object and looking at it raises nothing but
    a library exception; it is truthy only if the bytes hold a zero encapsulation status and (for CIP replies) a general status that
    means success at the place the standard reply layout puts it - so never when the reply is too short to contain its status words"""
    from pycomm3.exceptions import PycommError
    kind = FUZZ_KINDS[ki % len(FUZZ_KINDS)]
    frame = bytes(frame)
    req = _fuzz_request(kind)
    try:
        resp = req.response_class(req, frame)
        ok = bool(resp)
        _ = (resp.error, getattr(resp, "value", None), repr(resp))
        members = [(bool(r), r.error, getattr(r, "value", None)) for r in getattr(resp, "responses", [])] if kind.startswith("multi") else []
    except PycommError:
        return []
    except RecursionError:
        raise
    except Exception as e:
        if S.where(e) == "harness":
            raise
        return [Disc(f"bytes.foreign.{type(e).__name__}.{kind}", f"{kind} reply {frame.hex()}: {e!r}"[:600])]
    discs = []
    if kind in ("register", "listidentity"):
        status_end, gpos = 12, None
    elif kind == "gunconn":
        status_end, gpos = 44, 42
    else:
        status_end, gpos = 50, 48
    estatus = struct.unpack("<I", frame[8:12])[0] if len(frame) >= 12 else None
    g = frame[gpos] if gpos is not None and len(frame) > gpos else None
    def why_not():
        if len(frame) < status_end - 1:
            return f"is only {len(frame)} bytes long (status words end at {status_end})"
        if estatus != 0:
            return f"carries encapsulation status {estatus:#x}"
        if gpos is not None and expected_success(kind, frame[gpos - 2] & 0x7F, g, 0) is False:   # same classification as the status matrix
            return f"carries general status {g:#x} (reply service {frame[gpos - 2]:#x})"
        return None
    if ok and why_not() and not kind.startswith("multi"):   # what a wrapper's own truth value means is not user-visible: its members are
        discs.append(Disc(f"bytes.accepted.{kind}", f"{kind} reply {frame.hex()[:200]} {why_not()} and was reported as success"))
    if kind.startswith("multi") and any(m[0] for m in members) and why_not() and not (len(frame) >= status_end - 1 and estatus == 0 and g in (0x06, 0x1E)):   # a wrapper may report "embedded service error" or "partial" over good members
        discs.append(Disc(f"bytes.member-accepted.{kind}", f"{kind} reply {frame.hex()[:200]} {why_not()}, yet a member reply was reported as success"))
    for m in members:
        if m[0] and m[1]:
            discs.append(Disc(f"bytes.truthy-with-error.{kind}", f"member {m!r}"[:300]))
    return discs


def reply_seed_corpus():
    """one valid (truthy) reply per fuzz kind: [(kind index, frame)]"""
    out = []
    for ki, kind in enumerate(FUZZ_KINDS):
        if kind == "register":
            fr = enc_frame(0x65, b"\x01\x00\x00\x00", session=0x77)
        elif kind == "listidentity":
            from ..refcodec import encode_list_identity_item
            from ..refplc import DEFAULT_IDENTITY
            item = encode_list_identity_item(DEFAULT_IDENTITY)
            fr = enc_frame(0x63, struct.pack("<HHH", 1, 0x0C, len(item)) + item)
        elif kind.startswith("multi"):
            members = [cip_reply(0x4C, 0, [], b"\xc4\x00" + struct.pack("<i", i)) for i in range(3)]
            if kind == "multi-mixed":
                members[1] = cip_reply(0x4D, 0, [], b"")
            body, pos = struct.pack("<H", 3), 2 + 6
            for m in members:
                body += struct.pack("<H", pos)
                pos += len(m)
            fr = unit_frame(cip_reply(0x0A, 0, [], body + b"".join(members)))
        else:
            svc = {"gconn": 0x0E, "gunconn": 0x0E, "read": 0x4C, "readfrag": 0x52, "write": 0x4D, "writefrag": 0x53, "rmw": 0x4E,
                   "read-array": 0x4C, "read-string": 0x4C, "read-struct": 0x4C}[kind]
            data = {"read": b"\xc4\x00" + struct.pack("<i", 5), "readfrag": b"\xc4\x00" + struct.pack("<i", 5),
                    "read-array": b"\xc4\x00" + struct.pack("<5i", 1, 2, 3, 4, 5),
                    "read-string": b"\xa0\x02\xce\x0f" + struct.pack("<i", 3) + b"abc" + bytes(81),
                    "read-struct": b"\xa0\x02\x34\x12" + struct.pack("<iBxhh", 7, 8, 1, 2) + bytes(2), "gconn": b"\x01\x02", "gunconn": b"\x01\x02"}.get(kind, b"")
            cip = cip_reply(svc, 0, [], data)
            fr = rr_frame(cip) if kind == "gunconn" else unit_frame(cip)
        out.append((ki, fr))
    return out


def canaries():
    """classification must not depend on what happened earlier in the process (global tables, caches): a few fixed replies are
    classified again after every scenario"""
    discs = []
    for kind, rsvc in (("read", 0x4C), ("gconn", 0x0E), ("gconn", 0x4C), ("write", 0x4D), ("rmw", 0x4E), ("readfrag", 0x52), ("gunconn", 0x4C)):
        for status in (0, 6, 5):
            discs += [Disc("after-scenario." + d.bucket, d.detail + " [re-classified after an earlier scenario in the same process]")
                      for d in check_matrix(kind, rsvc, status, [], 0)]
    return discs


def check_forced(case):
    run = S.run_case(case, want_readback=False)
    discs = run.of("C13") + canaries()
    if case.get("template_forced"):
        return discs, run
    # no exception may escape, whatever was forced
    discs += [Disc("forced." + d.bucket, d.detail) for d in run.of("C03") if ".foreign." in d.bucket or ".raises." in d.bucket or ".shape." in d.bucket]
    f = case["forced"][0]
    if "tag" in f["when"]:
        # requests on other tags behave per the model
        discs += [Disc("forced." + d.bucket, d.detail) for d in run.of("C01", "C02")]
    elif run.results is not None:
        # wrapper / n-th request refused: whatever failed must carry the status text, nothing may be truthy with an error
        for tag in run.results:
            if not tag:
                if not tag.error:
                    discs.append(Disc("forced.no-error-text", repr(tag)[:300]))
                elif "service" in f["when"]:
                    why = status_text_ok(str(tag.error), f["status"], f.get("ext", []))
                    if why and "Unknown" not in str(tag.error)[:0]:
                        discs.append(Disc("forced.wrapper.error-text", f"wrapper refused with {f['status']:#x} {f.get('ext')}: {tag!r} {why}"[:400]))
    return discs, run


@st.composite
def forced_cases(draw):
    op = draw(st.sampled_from(["read", "write"]))
    case = draw(c01.cases(op, many=draw(st.booleans())))
    p = S.Project(case["pd"])
    kind = draw(st.sampled_from(["tag", "tag", "wrapper", "nth", "template"]))
    status = draw(st.sampled_from([0x01, 0x02, 0x04, 0x05, 0x08, 0x0F, 0x10, 0x13, 0x1E, 0x20, 0x26, 0x77, 0xFE, 0xFF]))
    ext = draw(st.sampled_from([[], [], [0x2105], [0x0001], [0x0000, 0x0001]]))
    if kind == "template":
        # the controller refuses a template read during the tag upload (open() then fails)
        forced = [{"when": {"service": 0x4C, "class": 0x6C, "transport": "connected"}, "status": status, "ext": ext}]
        case["template_forced"] = True
    elif kind == "wrapper":
        forced = [{"when": {"service": 0x0A, "transport": "connected"}, "status": status, "ext": ext}]
        case["reqs"] = [dict(r, invalid="forced") for r in case["reqs"]]
        case["wrapper_forced"] = True
    elif kind == "nth":
        forced = [{"when": {"nth": draw(st.integers(0, 3))}, "status": status, "ext": ext}]
        case["nth_forced"] = True
    else:
        t = draw(st.sampled_from(case["pd"]["tags"]))
        forced = [{"when": {"tag": t["name"]}, "status": status, "ext": ext}]
        case["reqs"] = [dict(r, invalid="forced") if r["tag"] == t["name"] else r for r in case["reqs"]]
    case["forced"] = forced
    return case


@st.composite
def corrupt_cases(draw):
    op = draw(st.sampled_from(["read", "write"]))
    case = draw(c01.cases(op))
    case["k"] = draw(st.one_of(st.integers(0, 12), st.integers(0, 40)))
    case["mode"] = draw(st.sampled_from(["truncate", "truncate", "flip", "random"]))
    if case["mode"] == "truncate":
        case["arg"] = draw(st.one_of(st.integers(0, 60), st.integers(0, 600)))
    elif case["mode"] == "flip":
        case["arg"] = [draw(st.one_of(st.integers(0, 60), st.integers(0, 600))), draw(st.integers(0, 255))]
    else:
        case["arg"] = draw(st.binary(max_size=80))
    return case


class _Rewrite:
    """wraps a target: replies to a Multiple Service Packet get another encapsulation status (the rest of the reply stays complete)"""

    def __init__(self, inner, estatus):
        self.inner, self.estatus = inner, estatus

    def handle(self, frame):
        reply = self.inner.handle(frame)
        if reply is not None and len(frame) > 48 and frame[0] == 0x70 and frame[46] == 0x0A:
            reply = reply[:8] + struct.pack("<I", self.estatus) + reply[12:]
        return reply

    def tcp_closed(self):
        self.inner.tcp_closed()

    def __getattr__(self, name):
        return getattr(self.inner, name)


def check_wrapper_refusal(op, status, ext, estatus=0):
    """a whole Multiple Service Packet is refused (general status + 0-2 extended status words, no member data), or its reply carries
    a non-zero encapsulation status: every request of the call is falsy with a text that names the status"""
    from pycomm3.exceptions import PycommError
    from ..refplc import RefPLC
    pd = {"udts": [], "programs": [], "extras": [], "tags": [
        {"name": "A", "scope": None, "type": "DINT", "dims": [], "instance": 3, "access": 0, "alias": False},
        {"name": "B", "scope": None, "type": "INT", "dims": [4], "instance": 4, "access": 0, "alias": False},
        {"name": "C", "scope": None, "type": "REAL", "dims": [], "instance": 5, "access": 0, "alias": False}]}
    cfg = {}
    if status:
        cfg["forced"] = [{"when": {"service": 0x0A, "transport": "connected"}, "status": status, "ext": list(ext)}]
    tgt = RefPLC(pd, {"/A": (11).to_bytes(4, "little"), "/B": bytes(range(8)), "/C": struct.pack("<f", 1.5)}, cfg)
    front = _Rewrite(tgt, estatus) if estatus else tgt
    discs = []
    try:
        plc = harness.open_logix(front)
    except PycommError as e:
        harness.uninstall()
        return [Disc("wrapper.open-fails", repr(e))]
    try:
        try:
            res = plc.read("A", "B{2}", "C") if op == "read" else plc.write(("A", 1), ("B{2}", [5, 6]), ("C", 2.5))
        except PycommError as e:
            return [Disc(f"wrapper.{op}.raises.{type(e).__name__}", f"status {status:#x} ext {ext} encap {estatus:#x}: {e!r}")]
        except Exception as e:
            if S.where(e) == "harness":
                raise
            return [Disc(f"wrapper.{op}.foreign.{type(e).__name__}", f"status {status:#x} ext {ext} encap {estatus:#x}: {e!r}")]
        for tag in res:
            if tag:
                discs.append(Disc(f"wrapper.{op}.error-accepted" + (".estatus" if estatus else ""), f"packet refused with status {status:#x} ext {ext} encap {estatus:#x}, yet {tag!r}"[:300]))
                break
            if not tag.error:
                discs.append(Disc(f"wrapper.{op}.no-error-text", f"status {status:#x} ext {ext} encap {estatus:#x}: {tag!r}"))
                break
            if status and not estatus:
                why = status_text_ok(str(tag.error), status, list(ext))
                if why:
                    discs.append(Disc(f"wrapper.{op}.error-text", f"packet refused with status {status:#x} ext {ext}: {tag!r} {why}"[:400]))
                    break
        if op == "write" and status and not estatus and (tgt.memory["/A"] != (11).to_bytes(4, "little")):
            discs.append(Disc("wrapper.write.applied", "the refused packet's writes changed the controller"))
        plc.close()
    except PycommError:
        pass
    finally:
        harness.uninstall()
    return discs


class _Patch:
    """wraps a target: replies selected by `when(request frame)` are changed by `how(reply)` (status words or length)"""

    def __init__(self, inner, when, how):
        self.inner, self.when, self.how, self.hits = inner, when, how, 0

    def handle(self, frame):
        reply = self.inner.handle(frame)
        if reply is not None and self.when(frame):
            self.hits += 1
            reply = self.how(reply)
        return reply

    def tcp_closed(self):
        self.inner.tcp_closed()

    def __getattr__(self, name):
        return getattr(self.inner, name)


def check_patched_reply(scn, arg):
    """one kind of reply is made unacceptable (its encapsulation status, its general status, or its length) while the rest of it
    stays complete: the call that consumes it must not report success, and nothing but a library exception may escape"""
    from pycomm3 import CIPDriver, LogixDriver
    from pycomm3.exceptions import PycommError
    from ..refplc import RefPLC
    pd = {"udts": [{"name": "U", "tid": 0x321, "handle": 0x4321, "size": 8, "string": None, "predefined": False, "name_has_semicolon": True, "dim_flag": False,
                    "members": [{"name": "a", "kind": "atomic", "type": "DINT", "array": 0, "offset": 0, "hidden": False},
                                {"name": "b", "kind": "atomic", "type": "INT", "array": 0, "offset": 4, "hidden": False}]}],
          "programs": [], "extras": [], "tags": [
        {"name": "A", "scope": None, "type": "DINT", "dims": [], "instance": 3, "access": 0, "alias": False},
        {"name": "B", "scope": None, "type": "INT", "dims": [4], "instance": 4, "access": 0, "alias": False},
        {"name": "u", "scope": None, "type": "U", "dims": [], "instance": 6, "access": 0, "alias": False},
        {"name": "big", "scope": None, "type": "DINT", "dims": [300], "instance": 5, "access": 0, "alias": False}]}
    tgt = RefPLC(pd, {"/A": (11).to_bytes(4, "little"), "/B": bytes(range(8)), "/u": bytes(8), "/big": bytes(range(200)) * 6}, {"fo_policy": "std"})
    est = lambda r: r[:8] + struct.pack("<I", arg) + r[12:]
    discs = []

    def guard(name, fn):
        try:
            return fn()
        except PycommError:
            return PycommError
        except Exception as e:
            if S.where(e) == "harness":
                raise
            discs.append(Disc(f"patched.{scn}.foreign.{type(e).__name__}", f"{name} (arg {arg}): {e!r}"[:300]))
            return PycommError

    try:
        if scn == "list_identity.estatus":
            front = _Patch(tgt, lambda f: f[0] == 0x63, est)
            harness.install(front)
            got = guard("list_identity", lambda: CIPDriver.list_identity("10.0.0.5"))
            if got is not PycommError and got:
                discs.append(Disc("patched.list_identity.error-accepted", f"ListIdentity reply with encapsulation status {arg:#x} returned {str(got)[:120]}"))
        elif scn == "template.estatus":
            front = _Patch(tgt, lambda f: len(f) > 50 and f[0] == 0x70 and f[46] == 0x4C and f[48:50] == b"\x20\x6c", est)
            harness.install(front)
            plc = LogixDriver("10.0.0.5")
            got = guard("open", plc.open)
            if got is not PycommError and front.hits and got:
                discs.append(Disc("patched.template.error-accepted", f"a template read reply with encapsulation status {arg:#x} was used: open() returned {got!r}"))
            guard("close", plc.close)
        else:
            harness.install(tgt)
            plc = LogixDriver("10.0.0.5")
            plc.open()
            if scn == "multi.gstatus":
                # the wrapper's general status is an error although member replies follow (0x1E and 6 are the legitimate exceptions)
                front = _Patch(tgt, lambda f: len(f) > 47 and f[0] == 0x70 and f[46] == 0x0A, lambda r: r[:48] + bytes([arg]) + r[49:])
                call = lambda: plc.read("A", "B{2}")
            elif scn in ("readfrag.mid.estatus", "readfrag.mid.service"):
                # the k-th reply of a three-fragment read (general status 6, 6, 0) is made unacceptable - a non-zero encapsulation status, or
                # the reply service of a service that does not continue - while the other fragments are answered properly
                k, val = arg
                seen = [0]

                def when(f):
                    if len(f) > 47 and f[0] == 0x70 and f[46] == 0x52:
                        seen[0] += 1
                        return seen[0] - 1 == k
                    return False
                how = (lambda r: r[:8] + struct.pack("<I", val) + r[12:]) if scn.endswith("estatus") else (lambda r: r[:46] + bytes([val | 0x80]) + r[47:])
                front = _Patch(tgt, when, how)
                call = lambda: plc.read("big{300}")
            else:   # "readfrag.cut": the first reply of a fragmented read is cut to `arg` bytes
                front = _Patch(tgt, lambda f: len(f) > 47 and f[0] == 0x70 and f[46] == 0x52 and front.hits == 0, lambda r: r[:arg])
                call = lambda: plc.read("big{300}")
            harness.CURRENT["target"] = front
            got = guard(scn, call)
            if got is not PycommError and front.hits:
                tags = got if isinstance(got, list) else [got]
                if (scn == "multi.gstatus" or scn.startswith("readfrag.mid") or arg < 50) and all(bool(t) for t in tags):
                    discs.append(Disc(f"patched.{scn.split('.')[0]}.error-accepted", f"{scn} {arg}: every result is truthy: {str(tags)[:200]}"))
            guard("close", plc.close)
    finally:
        harness.uninstall()
    return discs


def check_time_value(us):
    """the controller reports a clock value of `us` microseconds: get_plc_time answers with a Tag (falsy if the value cannot be
    represented) or a library exception, never anything else"""
    from pycomm3.exceptions import PycommError
    from ..refplc import RefPLC
    pd = {"udts": [], "programs": [], "extras": [], "tags": [{"name": "A", "scope": None, "type": "DINT", "dims": [], "instance": 3, "access": 0, "alias": False}]}
    tgt = RefPLC(pd, {"/A": bytes(4)}, {"wall_clock": us})
    try:
        plc = harness.open_logix(tgt)
    except PycommError as e:
        harness.uninstall()
        return [Disc("time.open-fails", repr(e))]
    try:
        try:
            t = plc.get_plc_time()
        except PycommError:
            return []
        except Exception as e:
            if S.where(e) == "harness":
                raise
            return [Disc(f"time.foreign.{type(e).__name__}", f"clock value {us}: {e!r}")]
        if t and t.value["microseconds"] != us:
            return [Disc("time.value", f"clock value {us}: {t!r}"[:300])]
        plc.close()
    except PycommError:
        pass
    finally:
        harness.uninstall()
    return []


def check_unknown_type(code):
    """the symbol list names a tag whose atomic type code the client does not know: every call that touches it answers with a falsy
    Tag, other requests of the call are unaffected, nothing but a library exception may escape"""
    from pycomm3.exceptions import PycommError
    from ..refplc import RefPLC
    pd = {"udts": [], "programs": [], "extras": [], "tags": [
        {"name": "odd", "scope": None, "type": "DINT", "dims": [], "instance": 3, "access": 0, "alias": False, "raw_type_code": code},
        {"name": "arr", "scope": None, "type": "INT", "dims": [4], "instance": 4, "access": 0, "alias": False, "raw_type_code": code},
        {"name": "ok", "scope": None, "type": "DINT", "dims": [], "instance": 5, "access": 0, "alias": False}]}
    tgt = RefPLC(pd, {"/odd": b"\x01\x02\x03\x04", "/arr": bytes(8), "/ok": (77).to_bytes(4, "little")}, {})
    discs = []
    try:
        plc = harness.open_logix(tgt)
    except PycommError:
        harness.uninstall()
        return []     # refusing such a project at upload is a library exception: allowed
    except Exception as e:
        harness.uninstall()
        return [Disc(f"unknown-type.open.foreign.{type(e).__name__}", f"type code {code:#x}: {e!r}")]
    try:
        for name, fn in (("read", lambda: plc.read("odd")), ("read2", lambda: plc.read("odd", "ok")), ("read3", lambda: plc.read("arr{2}", "ok")),
                         ("write", lambda: plc.write(("odd", 5))), ("write2", lambda: plc.write(("odd", 5), ("ok", 9))), ("readbit", lambda: plc.read("odd.1", "ok"))):
            try:
                res = fn()
            except PycommError as e:
                discs.append(Disc(f"unknown-type.{name}.raises.{type(e).__name__}", f"type code {code:#x}: {e!r}"))
                continue
            except Exception as e:
                if S.where(e) == "harness":
                    raise
                discs.append(Disc(f"unknown-type.{name}.foreign.{type(e).__name__}", f"type code {code:#x}: {e!r}"))
                continue
            res = res if isinstance(res, list) else [res]
            if name.endswith(("2", "3", "bit")) and len(res) == 2:
                other = res[1]
                if not other or other.value not in (77, 9):
                    discs.append(Disc(f"unknown-type.{name}.other-request", f"type code {code:#x}: the request for the ordinary tag returned {other!r}"))
        plc.close()
    except PycommError:
        pass
    finally:
        harness.uninstall()
    return discs


def _atheris_part(ctx, job):
    """coverage-guided search over (request kind, arbitrary reply bytes); even shards start from one valid reply per kind, odd ones from
    an empty corpus.  The oracle is inside the target (vf/fuzz_reply.py -> check_reply_bytes); a hit is re-checked here and stored."""
    import json
    import re
    import shutil
    import subprocess
    import sys
    import tempfile
    from ..runner import VERIF, HarnessError
    deps = os.path.join(VERIF, ".deps")
    if not os.path.isdir(os.path.join(deps, "atheris")):
        ctx.inconclusive.append("atheris not installed (setup.sh could not install it); coverage-guided part skipped")
        return
    work = tempfile.mkdtemp(prefix="vf_c13_")
    try:
        corpus = os.path.join(work, "corpus")
        os.makedirs(corpus)
        if job["shard"] % 2 == 0:
            for ki, fr in reply_seed_corpus():
                with open(os.path.join(corpus, "valid-%02d" % ki), "wb") as fh:
                    fh.write(bytes([ki]) + fr)
        out_json = os.path.join(work, "found.json")
        env = dict(os.environ, VF_FUZZ_OUT=out_json, PYTHONPATH=os.pathsep.join([VERIF, deps]))
        cmd = [sys.executable, "-m", "vf.fuzz_reply", corpus, f"-runs={job['runs']}", f"-seed={ctx.seed + job['shard']}",
               "-max_len=160", "-verbosity=0", "-print_final_stats=1", f"-artifact_prefix={work}/"]

        def _unlimit():    # libFuzzer reserves a large address space; the worker's own memory cap does not apply to it
            import resource
            soft, hard = resource.getrlimit(resource.RLIMIT_AS)
            resource.setrlimit(resource.RLIMIT_AS, (hard, hard))
        r = subprocess.run(cmd, capture_output=True, text=True, env=env, cwd=VERIF, timeout=7200, preexec_fn=_unlimit)
        m = re.search(r"stat::number_of_executed_units:\s*(\d+)", r.stderr)
        execs = int(m.group(1)) if m else 0
        ctx.bulk(execs, [], {"atheris-exec": execs})
        ctx.extra["atheris_execs"] = ctx.extra.get("atheris_execs", 0) + execs
        ctx.extra["atheris_corpus_files"] = len(os.listdir(corpus))
        if os.path.exists(out_json):
            rec = json.load(open(out_json))
            for hv in rec.get("nt", []):
                ctx.nt.add(hv)
            if rec.get("found"):
                data = bytes.fromhex(rec["found"]["data"])
                for d in check_reply_bytes(data[0], data[1:]):
                    ctx.violation(d, "bytes", {"ki": data[0], "frame": data[1:].hex()})
        elif r.returncode != 0:
            raise HarnessError(f"atheris target failed rc={r.returncode}: {r.stderr[-800:]}")
    finally:
        shutil.rmtree(work, ignore_errors=True)


def plan(tier):
    jobs = [{"part": "matrix", "kind": k} for k in KINDS]
    jobs.append({"part": "unknown-type"})
    jobs.append({"part": "wrapper"})
    jobs.append({"part": "multi"})
    jobs.append({"part": "short"})
    for i in range(2 if tier == "quick" else 12):
        jobs.append({"part": "atheris", "runs": 40000 if tier == "quick" else 1500000, "shard": i})
    n = 8 if tier == "quick" else 32
    for _ in range(n):
        jobs.append({"part": "forced", "examples": 60 if tier == "quick" else 600})
        jobs.append({"part": "corrupt", "examples": 400 if tier == "quick" else 4000})
    return jobs


EXTS = [[], [0x0000], [0x0100], [0x2105], [0x0204], [0xFFFF], [0x0001, 0x0002]]


def run_job(ctx, job):
    part = job["part"]
    if part == "wrapper":
        exts = [[], [0x0001], [0x2105], [0x0204], [0x00CD, 0x0000], [0x0204, 0x0000], [0x0002, 0x1234], [0x0109, 0x01F4]]
        for op in ("read", "write"):
            for status in [1, 2, 4, 5, 8, 0x0F, 0x10, 0x11, 0x13, 0x15, 0x20, 0x26, 0x77, 0xFF]:
                for ext in exts:
                    for d in check_wrapper_refusal(op, status, ext):
                        ctx.violation(d, "wrapper", {"op": op, "status": status, "ext": ext, "estatus": 0})
                    ctx.case(("wrapper", op, status, tuple(ext)), True, ["matrix", "wrapper-refusal"])
            if op == "read":
                cases = [("list_identity.estatus", e) for e in (1, 2, 3, 0x64, 0x65, 0x69, 0xFFFF)] + [("template.estatus", e) for e in (1, 3, 0x64)] + \
                        [("multi.gstatus", g) for g in (1, 2, 4, 5, 8, 0x13, 0x20, 0xFF)] + [("readfrag.cut", c) for c in range(0, 64)] + \
                        [("readfrag.mid.estatus", [k, e]) for k in (0, 1, 2) for e in (1, 3, 0x64, 0x65, 0xFFFF)] + \
                        [("readfrag.mid.service", [k, v]) for k in (0, 1) for v in (0x4C, 0x4D, 0x0E, 0x4E, 0x01)]
                for scn, a in cases:
                    for d in check_patched_reply(scn, a):
                        ctx.violation(d, "patched", {"scn": scn, "arg": a})
                    ctx.case(("patched", scn, tuple(a) if isinstance(a, list) else a), True, ["corrupt", "patched-reply"])
            for us in [0, 1, 1_600_000_000_000_000, 253402300799999999, 253402300800000000, 2 ** 63 - 1, 2 ** 63, 2 ** 64 - 1]:
                for d in check_time_value(us):
                    ctx.violation(d, "time", {"us": us})
                ctx.case(("time", us), True, ["time-value"])
            for estatus in [1, 2, 3, 0x64, 0x65, 0x69, 0x04, 0xFFFF, 0x80000000]:
                for d in check_wrapper_refusal(op, 0, [], estatus):
                    ctx.violation(d, "wrapper", {"op": op, "status": 0, "ext": [], "estatus": estatus})
                ctx.case(("wrapper-estatus", op, estatus), True, ["matrix", "wrapper-refusal"])
        return
    if part == "atheris":
        return _atheris_part(ctx, job)
    if part == "unknown-type":
        from pycomm3 import DataTypes
        known = {c for c in range(0x1000) if DataTypes.get(c) is not None}
        for code in [c for c in range(1, 0x100) if c not in known] + [0x100, 0x7FF, 0xFFF]:
            for d in check_unknown_type(code):
                ctx.violation(d, "unknown-type", {"code": code})
            ctx.case(("unknown-type", code), True, ["unknown-type-code"])
        return
    if part == "matrix":
        kind = job["kind"]
        svcs = REPLY_SERVICES if kind not in ("register", "listidentity") else [0x01]
        for rsvc in svcs:
            for status in range(256):
                for ext in EXTS:
                    for estatus in ([0, 1, 2, 3, 0x64, 0x65, 0x69, 0xFFFF] if ((status in (0, 6) or status % 16 == 0) and len(ext) < 2) else [0]):
                        discs = check_matrix(kind, rsvc, status, ext, estatus)
                        ctx.case(("m", kind, rsvc, status, tuple(ext), estatus), status != 0 or estatus != 0, ["matrix"],
                                 sample={"kind": kind, "reply_service": rsvc, "status": status, "ext": ext, "encap_status": estatus} if status == 6 else None)
                        for d in discs:
                            ctx.violation(d, "matrix", {"kind": kind, "rsvc": rsvc, "status": status, "ext": ext, "estatus": estatus, "header_only": False})
        for estatus in [0, 1, 2, 3, 0x64, 0x65, 0x69, 0x1234]:
            discs = check_matrix(kind, 0x0E, 0, [], estatus, header_only=True)
            ctx.case(("h", kind, estatus), True, ["matrix", "header-only"])
            for d in discs:
                ctx.violation(d, "matrix", {"kind": kind, "rsvc": 0x0E, "status": 0, "ext": [], "estatus": estatus, "header_only": True})
        ctx.exhaustive_parts.append("status matrix at packet level")
    elif part == "multi":
        import itertools
        pool = [(0, []), (4, []), (5, [0x2105]), (0xFF, [0x2105]), (0x13, []), (0x77, [])]
        for n in range(1, 5):
            for combo in itertools.product(pool, repeat=n):
                for ws in (0, 0x1E):
                    st_ = [(s, list(e)) for s, e in combo]
                    discs = check_multi(st_, ws)
                    ctx.case(("multi", tuple((s, tuple(e)) for s, e in combo), ws), any(s for s, _ in combo), ["matrix", "multi-vector"])
                    for d in discs:
                        ctx.violation(d, "multi", {"statuses": st_, "wrapper": ws})
    elif part == "short":
        for kind in ["gconn", "gunconn", "read", "readfrag", "write", "writefrag", "rmw", "register", "listidentity"]:
            for cut in range(0, 60):
                for session in ([0x1234] if kind not in ("register", "listidentity") else [0x1234, 1, 0xFFFFFFFF, 0x00010000]):
                    discs = check_short_reply(kind, cut, session)
                    ctx.case(("short", kind, cut, session), True, ["corrupt", "short-reply"])
                    for d in discs:
                        ctx.violation(d, "short", {"kind": kind, "cut": cut, "session": session})
    elif part == "forced":
        def check_case(case):
            discs, run = check_forced(case)
            return discs, True, ["forced"] + (["forced.wrapper"] if case.get("wrapper_forced") else [])
        hyp_search(ctx, "forced", forced_cases(), check_case, job["examples"], sample_of=c01.sample_of)
    else:
        hyp_search(ctx, "corrupt", corrupt_cases(), lambda c: (check_corrupt(c), True, ["corrupt", "corrupt." + c["mode"]]), job["examples"],
                   sample_of=lambda c: dict(c01.sample_of(c), k=c["k"], mode=c["mode"]))


def replay(ctx, kind, case):
    if kind == "bytes":
        return check_reply_bytes(case["ki"], bytes.fromhex(case["frame"]))
    if kind == "matrix":
        return check_matrix(case["kind"], case["rsvc"], case["status"], case["ext"], case["estatus"], case.get("header_only", False))
    if kind == "multi":
        return check_multi([(s, e) for s, e in case["statuses"]], case["wrapper"])
    if kind == "short":
        return check_short_reply(case["kind"], case["cut"], case.get("session", 0x1234))
    if kind == "forced":
        return check_forced(case)[0]
    if kind == "unknown-type":
        return check_unknown_type(case["code"])
    if kind == "time":
        return check_time_value(case["us"])
    if kind == "patched":
        return check_patched_reply(case["scn"], case["arg"])
    if kind == "wrapper":
        return check_wrapper_refusal(case["op"], case["status"], case["ext"], case.get("estatus", 0))
    return check_corrupt(case)
