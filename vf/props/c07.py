"""C07 - Encodings are the CIP wire format (differential against the independent reference codec).

  E  lib.encode(v) == ref.encode(v) byte for byte, for generated (type, value) pairs
  D  lib.decode(b) == ref.decode(b) for every b the reference accepts (all 1- and 2-byte patterns
     exhaustively; boundary / random patterns for wider types; reference wire bytes of composite types,
     including nested derived-length arrays; template-style layouts with arbitrary memory content)
  K  every documented CIP type code maps to the type of that name and width
"""
import struct

from hypothesis import strategies as st

from .. import codec_common as C
from .. import refcodec as R
from ..refcodec import T
from ..runner import Disc, hyp_search
from .c06 import kind_sig, classes_of

PID = "C07"
LEVEL = "exploration"
TECHNIQUE = "differential testing of every exported codec against an independent reference codec; exhaustive over all 1- and 2-byte patterns"
RULE = ("(type, value) and (type, bytes) pairs: every byte pattern of every 1/2-byte type (exhaustive), boundary/bit/random "
        "patterns of 4/8-byte types incl. NaN/inf/denormals, grammar-generated composite types, template-style StructTag / "
        "FixedSizeString layouts with gaps, packed BOOL hosts and hidden members; non-trivial = encoding is neither all-zero nor "
        "a byte palindrome (so an endianness or field swap is visible) or the type is a string/struct/array/template; "
        "distinct = hash of (type, bytes)")
LEVEL_TEXT = ("Byte-for-byte differential against a reference codec written from the CIP specification with `struct` only; "
              "1- and 2-byte domains are enumerated completely in both directions, everything else is sampled.")
ASSUMPTIONS = [
    "the reference codec (vf/refcodec.py) is the trusted statement of the CIP / Logix wire format",
    "type-code widths are asserted for the codes whose width is fixed by CIP Vol 1 Table C-6.1 (C1-CF, D1-D4, D6-D8, DB, DD)",
    "floats compare as values with NaN == NaN (a binary32 signalling NaN cannot survive a trip through a Python float)",
]
FLOORS = {"quick": {"template": 300, "struct": 300, "string": 300, "wide": 2000},
          "thorough": {"template": 5000, "struct": 5000, "string": 5000, "wide": 50000}}

FIXED = {"BOOL": 1, **{k: v[1] for k, v in R.INTS.items()}, **{k: v[1] for k, v in R.FLOATS.items()}, **R.BITS}


def blame(e):
    import traceback
    tb = traceback.extract_tb(e.__traceback__)
    return next((f"{f.filename.split('/')[-1]}:{f.name}" for f in reversed(tb) if "/pycomm3/" in f.filename), "harness")


def check_decode(t, buf):
    """If the reference decodes `buf` (consuming all of it), the library must decode the same value."""
    from pycomm3.exceptions import PycommError
    sig = kind_sig(t)
    try:
        want, pos = R.dec(t, buf, 0)
    except (R.RefShort, R.RefBad):
        return []
    try:
        got = C.lib_decode(t, bytes(buf[:pos]))
    except PycommError as e:
        return [Disc(f"decode.raises.{sig}", f"type={t} bytes={bytes(buf[:pos]).hex()} reference={want!r} library raised {e!r}"[:800])]
    except Exception as e:
        if blame(e) == "harness":
            raise
        return [Disc(f"decode.foreign.{sig}", f"type={t} bytes={bytes(buf[:pos]).hex()}: {e!r}"[:800])]
    if isinstance(got, bytearray):
        got = bytes(got)
    if not R.ref_equal(got, _shape(t, want)):
        return [Disc(f"decode.value.{sig}", f"type={t} bytes={bytes(buf[:pos]).hex()} library={got!r} reference={want!r}"[:900])]
    if isinstance(got, (list, dict)):
        R.scramble(got)   # the caller may modify what it received; the next decode of the same bytes must not notice
        try:
            again = C.lib_decode(t, bytes(buf[:pos]))
        except Exception as e:
            return [Disc(f"decode.aliasing-raises.{sig}", f"type={t}: second decode raised {e!r}")]
        if isinstance(again, bytearray):
            again = bytes(again)
        if not R.ref_equal(again, _shape(t, want)):
            return [Disc(f"decode.aliasing.{sig}", f"type={t} bytes={bytes(buf[:pos]).hex()}: after the caller modified the first result a second decode gives {again!r}, reference {want!r}"[:900])]
    return []


def _shape(t, v):
    """reference value -> the Python shape the library documents for it"""
    k = t["k"]
    if k == "DATE_AND_TIME":
        return tuple(v)
    if k == "STRINGI":
        return tuple(v)
    if k == "struct":
        return {n: _shape(mt, v[n]) for n, mt in t["members"] if n}
    if k == "array" and t["el"]["k"] not in R.BITS:
        return [_shape(t["el"], x) for x in v]
    if k == "structtag":
        out = {}
        private = set(t.get("private", ()))
        for n, mt, off in t["members"]:
            if n not in private:
                out[n] = _shape(mt, v[n])
        for n in t["bits"]:
            if n not in private:
                out[n] = v[n]
        return out
    return v


def check_encode(t, v):
    from pycomm3.exceptions import PycommError
    sig = kind_sig(t)
    try:
        want = R.enc(t, _ref_value(t, v))
    except R.RefDomain:
        return []
    try:
        got = bytes(C.lib_encode(t, C.norm_value_for_lib(t, v)))
    except PycommError as e:
        return [Disc(f"encode.raises.{sig}", f"type={t} value={v!r} reference={want.hex()} library raised {e!r}"[:800])]
    except Exception as e:
        if blame(e) == "harness":
            raise
        return [Disc(f"encode.foreign.{sig}", f"type={t} value={v!r}: {e!r}"[:800])]
    if got != want:
        return [Disc(f"encode.bytes.{sig}", f"type={t} value={v!r} library={got.hex()} reference={want.hex()}"[:900])]
    return []


def _ref_value(t, v):
    k = t["k"]
    if k == "struct":
        return {name: _ref_value(mt, v["" if name is None else name]) for name, mt in t["members"]} if False else \
            [_ref_value(mt, v["" if name is None else name]) for name, mt in t["members"]]
    if k == "array" and t["el"]["k"] not in R.BITS:
        return [_ref_value(t["el"], x) for x in v]
    return v


def ref_wire(t, v):
    """Reference wire bytes including the length prefixes of derived-length arrays at any depth."""
    k = t["k"]
    if k == "array":
        el, ln = t["el"], t["len"]
        if el["k"] in R.BITS:
            n = R.BITS[el["k"]] * 8
            body = b"".join(R.enc(el, v[i:i + n]) for i in range(0, len(v), n))
            cnt = len(v) // n
        else:
            body = b"".join(ref_wire(el, x) for x in v)
            cnt = len(v)
        if isinstance(ln, int):
            if cnt < ln:
                raise R.RefDomain("short")
            if el["k"] in R.BITS:
                body = body[: ln * R.BITS[el["k"]]]
            else:
                body = b"".join(ref_wire(el, x) for x in v[:ln])
        if isinstance(ln, dict):
            return R.enc(T(ln["lt"]), cnt) + body
        return body
    if k == "struct":
        return b"".join(ref_wire(mt, v["" if name is None else name]) for name, mt in t["members"])
    return R.enc(t, v)


def nontrivial_bytes(t, b):
    if t["k"] not in FIXED:
        return True
    return any(b) and bytes(b) != bytes(b)[::-1]


# ------------------------------------------------------------------------------------------------
def check_codes():
    from pycomm3 import DataTypes
    discs = []
    for code, (name, width) in R.TYPE_CODES.items():
        try:
            typ = DataTypes.get_type(code)
        except Exception as e:
            discs.append((code, Disc("code.exc", f"DataTypes.get_type({code:#x}) raised {e!r}")))
            continue
        if typ is None or typ.__name__ != name or typ.code != code:
            discs.append((code, Disc("code.type", f"code {code:#x} -> {typ!r}, expected {name}")))
        elif width is not None and typ.size != width:
            discs.append((code, Disc("code.width", f"code {code:#x} {name}: size {typ.size}, expected {width}")))
        else:
            # the type named by the table must also be the codec of that width
            if width is not None and name not in ("DATE_AND_TIME",):
                b = bytes(range(1, width + 1))
                discs += [(code, d) for d in check_decode(T(name), b)]
    return discs


def plan(tier):
    jobs = [{"part": "codes"}, {"part": "strlen"}, {"part": "arrlen"}]
    for name, size in FIXED.items():
        if size == 1:
            jobs.append({"part": "exhaustive", "type": name, "lo": 0, "hi": 256})
        elif size == 2:
            for lo in range(0, 65536, 16384):
                jobs.append({"part": "exhaustive", "type": name, "lo": lo, "hi": lo + 16384})
    n = 16 if tier == "quick" else 64
    for i in range(n):
        jobs.append({"part": "wide", "examples": 400 if tier == "quick" else 6000})
        jobs.append({"part": "gen", "examples": 300 if tier == "quick" else 6000})
        jobs.append({"part": "template", "examples": 150 if tier == "quick" else 3000})
    return jobs


def _exh_check(t, b):
    discs = check_decode(t, b)
    if not discs:
        v, _ = R.dec(t, b, 0)
        discs = check_encode(t, v)
        # BOOL: any non-zero byte decodes True; encodes 0xFF.  Others: re-encoding reproduces b.
        if not discs and t["k"] != "BOOL":
            try:
                again = bytes(C.lib_encode(t, v))
                if again != b:
                    discs.append(Disc(f"reencode.{t['k']}", f"{t['k']}: decode({b.hex()}) = {v!r} encodes to {again.hex()}"))
            except Exception as e:
                discs.append(Disc(f"reencode.raises.{t['k']}", f"{t['k']}: {v!r}: {e!r}"))
    return discs


def run_job(ctx, job):
    part = job["part"]
    if part == "codes":
        for code, d in check_codes():
            ctx.violation(d, "code", {"code": code})
        for code in R.TYPE_CODES:
            ctx.case(("code", code), True, ["type-code"], sample={"code": code, "name": R.TYPE_CODES[code][0]})
        ctx.exhaustive_parts.append("type-code table")
    elif part == "strlen":
        for t, v in C.boundary_string_cases():
            wrapped = T("struct", members=[["s", t], ["tail", T("UINT")]]) if t["k"] != "STRINGN" or t.get("cs", 1) == 1 else None
            discs = check_value_case(t, v)
            if wrapped is not None:
                discs += check_value_case(wrapped, {"s": v, "tail": 0xBEEF})
            ctx.case(("strlen", t["k"], t.get("cs"), len(v)), True, ["string", "string-length-boundary"], sample={"type": t, "length": len(v)} if len(v) == 32768 else None)
            for d in discs:
                ctx.violation(d, "value", {"t": t, "v": v})
        ctx.exhaustive_parts.append("string length-prefix boundaries")
    elif part == "arrlen":
        for t, v in C.boundary_array_cases():
            discs = check_value_case(t, v)
            ctx.case(("arrlen", str(t["len"]), t["el"]["k"], len(v)), True, ["array", "array-length-boundary"])
            for d in discs:
                ctx.violation(Disc(d.bucket, d.detail[:300] + f" ... [{len(v)} elements]"), "value", {"t": t, "v": v})
        ctx.exhaustive_parts.append("array length-prefix boundaries")
    elif part == "exhaustive":
        t = T(job["type"])
        size = FIXED[job["type"]]
        for i in range(job["lo"], job["hi"]):
            b = i.to_bytes(size, "big")
            discs = _exh_check(t, b)
            ctx.case((job["type"], i), nontrivial_bytes(t, b), ["exh." + job["type"]],
                     sample={"type": job["type"], "bytes": b.hex()} if i == 0x1234 % (job["hi"]) else None)
            for d in discs:
                ctx.violation(d, "bytes", {"t": t, "b": b})
        ctx.exhaustive_parts.append(f"all byte patterns of {job['type']}")
    elif part == "wide":
        wide = [n for n, s in FIXED.items() if s >= 4] + ["DATE_AND_TIME"]
        pat = st.one_of(
            st.binary(min_size=8, max_size=8),
            st.sampled_from([bytes(8), b"\xff" * 8, bytes(range(1, 9)), b"\x00\x00\x80\x7f\x00\x00\x80\xff",
                             b"\x00\x00\xc0\x7f\x01\x00\x80\x7f", b"\x01\x00\x00\x00\x00\x00\x00\x00",
                             b"\x00\x00\x00\x00\x00\x00\xf0\x7f", b"\x00\x00\x00\x00\x00\x00\xf8\x7f",
                             b"\x01\x00\x00\x00\x00\x00\xf0\x7f", b"\x00\x00\x00\x80\x00\x00\x00\x80"]),
            st.integers(0, 63).map(lambda i: (1 << i).to_bytes(8, "little")),
        )

        @st.composite
        def cases(draw):
            name = draw(st.sampled_from(wide))
            size = 8 if name == "DATE_AND_TIME" else FIXED[name]
            b = draw(pat)[:size] if name != "DATE_AND_TIME" else draw(pat)[:6]
            return {"t": T(name), "b": b}

        def check_case(case):
            t, b = case["t"], case["b"]
            if t["k"] == "DATE_AND_TIME":
                discs = check_decode(t, b)
                if not discs:
                    v, _ = R.dec(t, b, 0)
                    discs = check_encode(t, list(v))
            else:
                discs = _exh_check(t, b) if t["k"] not in R.FLOATS else check_decode(t, b) or check_encode(t, R.dec(t, b, 0)[0])
            return discs, nontrivial_bytes(t, b), ["wide"]

        hyp_search(ctx, "bytes", cases(), check_case, job["examples"])
    elif part == "gen":
        @st.composite
        def cases(draw):
            t = draw(C.types(depth=draw(st.integers(0, 2)), derived_nested=True))
            v = draw(C.values(t))
            return {"t": t, "v": v}

        def check_case(case):
            return check_value_case(case["t"], case["v"]), True, classes_of(case["t"])

        hyp_search(ctx, "value", cases(), check_case, job["examples"])
    else:
        @st.composite
        def cases(draw):
            t = draw(st.one_of(C.structtags(), st.integers(1, 90).map(lambda n: T("fixedstr", size=n)), C.fixedstr_padded()))
            if t["k"] == "structtag":
                v = draw(C.structtag_values(t))
                mem = draw(st.binary(min_size=t["size"], max_size=t["size"]))
            else:
                v = draw(C.values(t))
                n = draw(st.integers(0, t["size"]))
                mem = struct.pack("<I", n) + draw(st.binary(min_size=t["size"], max_size=t["size"]))
            return {"t": t, "v": v, "mem": mem}

        def check_case(case):
            t = case["t"]
            discs = check_encode(t, case["v"]) + check_decode(t, case["mem"])
            return discs, True, ["template"]

        hyp_search(ctx, "template", cases(), check_case, job["examples"])


def check_value_case(t, v):
    """E on the documented encode output (no prefixes), D on reference wire bytes (with prefixes)."""
    discs = []
    has_nested_derived = _nested_derived(t, top=True)
    try:
        wire = ref_wire(t, v)
    except R.RefDomain:
        return []
    if not has_nested_derived:
        discs += check_encode_noprefix(t, v)
    discs += check_decode(t, wire)
    return discs


def check_encode_noprefix(t, v):
    from pycomm3.exceptions import PycommError
    sig = kind_sig(t)
    try:
        want = _ref_noprefix(t, v)
    except R.RefDomain:
        return []
    try:
        got = bytes(C.lib_encode(t, C.norm_value_for_lib(t, v)))
    except PycommError as e:
        return [Disc(f"encode.raises.{sig}", f"type={t} value={v!r} reference={want.hex()} library raised {e!r}"[:800])]
    except Exception as e:
        if blame(e) == "harness":
            raise
        return [Disc(f"encode.foreign.{sig}", f"type={t} value={v!r}: {e!r}"[:800])]
    if got != want:
        return [Disc(f"encode.bytes.{sig}", f"type={t} value={v!r} library={got.hex()} reference={want.hex()}"[:900])]
    return []


def _ref_noprefix(t, v):
    k = t["k"]
    if k == "array":
        el, ln = t["el"], t["len"]
        if el["k"] in R.BITS:
            n = R.BITS[el["k"]] * 8
            vv = v[: ln * n] if isinstance(ln, int) else v
            if isinstance(ln, int) and len(v) < ln * n:
                raise R.RefDomain("short")
            return b"".join(R.enc(el, vv[i:i + n]) for i in range(0, len(vv), n))
        vv = v[:ln] if isinstance(ln, int) else v
        if isinstance(ln, int) and len(v) < ln:
            raise R.RefDomain("short")
        return b"".join(_ref_noprefix(el, x) for x in vv)
    if k == "struct":
        return b"".join(_ref_noprefix(mt, v["" if name is None else name]) for name, mt in t["members"])
    return R.enc(t, v)


def _nested_derived(t, top=False):
    k = t["k"]
    if k == "array":
        if isinstance(t["len"], dict) and not top:
            return True
        return _nested_derived(t["el"])
    if k == "struct":
        return any(_nested_derived(mt) for _, mt in t["members"])
    return False


def replay(ctx, kind, case):
    if kind == "code":
        return [d for c, d in check_codes() if c == case["code"]]
    if kind == "bytes":
        t, b = case["t"], case["b"]
        if t["k"] in R.FLOATS or t["k"] == "DATE_AND_TIME":
            return check_decode(t, b)
        return _exh_check(t, b)
    if kind == "value":
        return check_value_case(case["t"], case["v"])
    if kind == "template":
        return check_encode(case["t"], case["v"]) + check_decode(case["t"], case["mem"])
    raise ValueError(kind)
