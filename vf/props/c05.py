"""C05 - Uploaded tag list and type definitions mirror the controller."""
import json

from hypothesis import strategies as st

from .. import gen_project as G
from .. import harness
from .. import scenario as S
from ..project import ATOMIC, EXTERNAL_ACCESS_TEXT, Project
from ..refcodec import ref_equal
from ..runner import Disc, hyp_search

PID = "C05"
LEVEL = "exploration"
TECHNIQUE = ("Hypothesis-generated controller projects (symbol zoo, nested UDTs, packed BOOLs, custom strings) x pagination x template fragment size "
             "x firmware; oracle = field-by-field comparison of the uploaded definitions with the project + metamorphic equality over pagination")
RULE = ("case = (project incl. program/routine/task/map/cxn/__/bit-12 system symbols and module tags, symbol-list page size 1..600 bytes, "
        "template fragment size 1..600, firmware generation, second (page, fragment) pair for the metamorphic run); non-trivial = the project has "
        ">= 1 UDT with a packed BOOL or nested member and the upload needed >= 2 symbol pages or >= 2 template fragments; distinct = hash of the case")
LEVEL_TEXT = ("Differential exploration of tag upload: tags, data_types, info['programs'|'tasks'] and tags_json are compared with the project the "
              "reference target holds; the result must be identical under a second pagination / fragmentation; each uploaded type class must "
              "decode the tag's memory to the reference value.")
ASSUMPTIONS = [
    "RefPLC serves symbol records and template blobs in the layout of 1756-PM020; template ids avoid 0xC0-0xDF (atomic type codes)",
    "external access is asserted only for firmware >= 18 (the attribute does not exist before)",
]
FLOORS = {"quick": {"multi-page": 500, "multi-fragment": 500, "nested-or-bool": 500, "program-tags": 300},
          "thorough": {"multi-page": 10000, "multi-fragment": 10000}}


def expected_tags(p, scopes):
    out = {}
    for t in p.data["tags"]:
        if t.get("scope") in scopes:
            out[(f"Program:{t['scope']}." if t.get("scope") else "") + t["name"]] = t
    return out


def check_definition(p, u, d, path, discs, seen):
    """d: library data_type dict for udt u"""
    if not isinstance(d, dict):
        discs.append(Disc("def.notdict", f"{path}: definition is {d!r}"))
        return
    name = "STRING" if u["name"] == "ASCIISTRING82" else u["name"]
    if d.get("name") != name:
        discs.append(Disc("def.name", f"{path}: name {d.get('name')!r}, expected {name!r}"))
    vis = [m["name"] for m in u["members"] if not m["hidden"]]
    if d.get("attributes") != vis:
        discs.append(Disc("def.attributes", f"{path}: attributes {d.get('attributes')!r}, visible members {vis!r}"))
    tpl = d.get("template", {})
    want_tpl = p.template_attrs(u)
    for k, v in want_tpl.items():
        if tpl.get(k) != v:
            discs.append(Disc(f"def.template.{k}", f"{path}: template[{k}] = {tpl.get(k)!r}, expected {v}"))
    if u.get("string") is not None:
        if d.get("string") != u["string"]:
            discs.append(Disc("def.string", f"{path}: string capacity {d.get('string')!r}, expected {u['string']}"))
    elif "string" in d:
        discs.append(Disc("def.string.spurious", f"{path}: non-string structure reported as string of {d['string']}"))
    it = d.get("internal_tags", {})
    for m in u["members"]:
        mi = it.get(m["name"])
        mp = f"{path}.{m['name']}"
        if mi is None:
            discs.append(Disc("def.member.missing", f"{mp}: not in internal_tags"))
            continue
        if mi.get("offset") != m["offset"]:
            discs.append(Disc("def.member.offset", f"{mp}: offset {mi.get('offset')}, expected {m['offset']}"))
        if m["kind"] == "bit":
            if mi.get("bit") != m["bit"] or mi.get("data_type_name") != "BOOL":
                discs.append(Disc("def.member.bit", f"{mp}: bit {mi.get('bit')!r} type {mi.get('data_type_name')!r}, expected bit {m['bit']} BOOL"))
            continue
        if mi.get("array") != m["array"]:
            discs.append(Disc("def.member.array", f"{mp}: array {mi.get('array')!r}, expected {m['array']}"))
        if m["kind"] == "udt":
            mu = p.udts[m["type"]]
            if mi.get("tag_type") != "struct":
                discs.append(Disc("def.member.tag_type", f"{mp}: tag_type {mi.get('tag_type')!r}, expected struct"))
            want_name = "STRING" if mu["name"] == "ASCIISTRING82" else mu["name"]
            if mi.get("data_type_name") != want_name:
                discs.append(Disc("def.member.type", f"{mp}: data_type_name {mi.get('data_type_name')!r}, expected {want_name!r}"))
            if mu["name"] not in seen:
                seen.add(mu["name"])
                check_definition(p, mu, mi.get("data_type"), mp, discs, seen)
        else:
            if mi.get("tag_type") != "atomic" or mi.get("data_type_name") != m["type"]:
                discs.append(Disc("def.member.type", f"{mp}: {mi.get('tag_type')!r}/{mi.get('data_type_name')!r}, expected atomic/{m['type']}"))
    extra = set(it) - {m["name"] for m in u["members"]}
    if extra:
        discs.append(Disc("def.member.invented", f"{path}: internal_tags has {sorted(extra)[:4]}"))


def check_tag_record(p, name, t, rec, fw, discs, seen):
    struct = p.is_struct(t["type"])
    want = {
        "tag_name": name,
        "tag_type": "struct" if struct else "atomic",
        "data_type_name": p.type_string(t["type"]),
        "dim": len(t["dims"]),
        "dimensions": list(t["dims"]) + [0] * (3 - len(t["dims"])),
        "alias": bool(t.get("alias")),
        "instance_id": t["instance"],
    }
    if fw >= 18:
        want["external_access"] = EXTERNAL_ACCESS_TEXT[t.get("access", 0)]
    if struct:
        want["template_instance_id"] = p.udts[t["type"]]["tid"]
    if t["type"] == "BOOL" and not t["dims"]:
        want["bit_position"] = t.get("bitpos", 0)
    for k, v in want.items():
        if rec.get(k) != v:
            discs.append(Disc(f"tag.{k}", f"{name}: {k} = {rec.get(k)!r}, controller has {v!r}"))
    if struct:
        u = p.udts[t["type"]]
        if u["name"] not in seen:
            seen.add(u["name"])
            check_definition(p, u, rec.get("data_type"), name, discs, seen)
    elif rec.get("data_type") != t["type"]:
        discs.append(Disc("tag.data_type", f"{name}: data_type {rec.get('data_type')!r}, expected {t['type']!r}"))


def expected_value(p, t, mem):
    es = p.elem_size(t["type"])
    n = p.n_elements(t)
    if not t["dims"]:
        return p.ref_value(t["type"], mem)
    if t["type"] == "DWORD":
        out = []
        for i in range(n):
            out += p.ref_value("DWORD", mem[4 * i:4 * i + 4])
        return out
    return [p.ref_value(t["type"], mem[i * es:(i + 1) * es]) for i in range(n)]


SAME_SIZE = {"DINT": ["UDINT", "REAL"], "UDINT": ["DINT", "REAL"], "REAL": ["DINT", "UDINT"], "INT": ["UINT"], "UINT": ["INT"],
             "LINT": ["ULINT", "LREAL"], "ULINT": ["LINT", "LREAL"], "LREAL": ["LINT", "ULINT"], "SINT": ["USINT"], "USINT": ["SINT"]}


def edited_project(pd, pick):
    """a small program edit that keeps every size: one visible atomic member of one UDT changes its type (and name)"""
    import copy
    pd2 = copy.deepcopy(pd)
    cands = [(u, m) for u in pd2["udts"] if u.get("string") is None for m in u["members"]
             if m["kind"] == "atomic" and not m["hidden"] and m["type"] in SAME_SIZE and m["name"] not in ("CTL", "Control", "LEN", "DATA")]   # (an edit of LEN could turn a look-alike into a real string layout)
    if not cands:
        return None
    u, m = cands[pick % len(cands)]
    m["type"] = SAME_SIZE[m["type"]][pick % len(SAME_SIZE[m["type"]])]
    if pick % 2 and not any(x["name"] == m["name"] + "_v2" for x in u["members"]) and len(m["name"]) < 36:
        m["name"] = m["name"] + "_v2"
    if pick % 3 == 0:
        u["handle"] = (u["handle"] + 1) & 0xFFFF or 1
    return pd2


def upload(case, cfg_override=None, **driver_kw):
    c = dict(case)
    if cfg_override:
        c["cfg"] = dict(case["cfg"], **cfg_override)
    run = S.Run()
    p, mem, tgt = S.build_target(c)
    from pycomm3 import LogixDriver
    from pycomm3.exceptions import PycommError
    harness.install(tgt)
    plc = LogixDriver("192.168.1.10", **driver_kw)
    try:
        plc.open()
    except harness.StepBudgetExceeded:
        return p, tgt, None, [Disc("open.nonterminating", "tag upload kept sending requests (step budget exceeded)")]
    except PycommError as e:
        chain, x = [], e
        while x is not None:
            chain.append(f"{type(x).__name__}: {x}")
            x = x.__cause__
        return p, tgt, None, [Disc(f"open.raises.{type(e).__name__}", " <- ".join(chain)[:600])]
    return p, tgt, plc, []


def snapshot(plc):
    try:
        return json.dumps({"tags": plc.tags_json, "programs": plc.info.get("programs"), "tasks": plc.info.get("tasks")}, sort_keys=True, default=repr)
    except Exception as e:
        return f"<not serialisable: {e!r}>"


def check_case(case):
    from pycomm3.exceptions import PycommError
    discs = []
    cls = set()
    p, tgt, plc, d0 = upload(case)
    if plc is None:
        return d0, False, ["open-failed"]
    try:
        fw = tgt.fw_major
        pd = p.data
        scopes = [None] + [pr["name"] for pr in pd["programs"]]
        want = expected_tags(p, scopes)
        got = plc.tags
        missing = sorted(set(want) - set(got))
        invented = sorted(set(got) - set(want))
        if missing:
            discs.append(Disc("tags.missing", f"not uploaded: {missing[:5]} (of {len(want)})"))
        if invented:
            discs.append(Disc("tags.invented", f"not user tags of the controller: {invented[:5]}"))
        seen = set()
        for name, t in want.items():
            if name in got:
                check_tag_record(p, name, t, got[name], fw, discs, seen)
        # data_types holds every structure reachable from a tag
        for uname in seen:
            key = "STRING" if uname == "ASCIISTRING82" else uname
            if key not in plc.data_types:
                discs.append(Disc("data_types.missing", f"{key} not in data_types"))
        # programs / tasks
        wantp = {pr["name"]: {"instance_id": pr["instance"], "routines": [r["name"] for r in sorted(pr["routines"], key=lambda r: r["instance"])]} for pr in pd["programs"]}
        if plc.info.get("programs") != wantp:
            discs.append(Disc("info.programs", f"{plc.info.get('programs')!r} != {wantp!r}"[:500]))
        wantt = {x["name"][5:]: {"instance_id": x["instance"]} for x in pd["extras"] if x["name"].startswith("Task:")}
        if plc.info.get("tasks") != wantt:
            discs.append(Disc("info.tasks", f"{plc.info.get('tasks')!r} != {wantt!r}"[:500]))
        # JSON view
        try:
            js = plc.tags_json
            json.dumps(js)
            if set(js) != set(got):
                discs.append(Disc("json.keys", "tags_json key set differs from tags"))
        except Exception as e:
            discs.append(Disc("json.serialisable", f"json.dumps(tags_json) raised {e!r}"))
        # definitions are usable: each type class decodes the tag's memory to the reference value
        for name, t in want.items():
            rec = got.get(name)
            if rec is None or "type_class" not in rec:
                continue
            mem = bytes(tgt.mem(t))
            try:
                val = rec["type_class"].decode(mem)
            except Exception as e:
                discs.append(Disc("typeclass.decode-raises", f"{name}: {e!r}"))
                continue
            exp = expected_value(p, t, mem)
            if not ref_equal(val, exp):
                discs.append(Disc("typeclass.value", f"{name} ({t['type']}{t['dims']}): decoded {str(val)[:150]}, reference {str(exp)[:150]}"))
        snap1 = snapshot(plc)
        # the same driver object uploads again after a program edit (sizes unchanged): nothing of the old definitions may survive
        pd2 = edited_project(pd, case.get("edit", 0)) if case.get("edit") is not None else None
        if pd2 is not None:
            cls.add("re-upload-after-edit")
            p2 = Project(pd2)
            tgt.load_project(p2, {k: bytes(v) for k, v in tgt.memory.items()})
            try:
                if case.get("edit", 0) % 2:
                    plc.get_tag_list(program="*")
                else:
                    plc.close()
                    plc.open()
                want2 = expected_tags(p2, scopes)
                seen2 = set()
                d2 = []
                if set(plc.tags) != set(want2):
                    d2.append(Disc("reupload.tags", f"after the edit: {sorted(set(plc.tags) ^ set(want2))[:5]}"))
                for name, t in want2.items():
                    if name in plc.tags:
                        check_tag_record(p2, name, t, plc.tags[name], fw, d2, seen2)
                        rec = plc.tags[name]
                        try:
                            val = rec["type_class"].decode(bytes(tgt.mem(t)))
                            if not ref_equal(val, expected_value(p2, t, bytes(tgt.mem(t)))):
                                d2.append(Disc("reupload.typeclass.value", f"{name}: decoded with a stale definition"))
                        except Exception as e:
                            d2.append(Disc("reupload.typeclass.raises", f"{name}: {e!r}"))
                discs += [Disc("reupload." + d.bucket if not d.bucket.startswith("reupload.") else d.bucket, d.detail + " [second upload on the same driver after an edit]") for d in d2]
            except PycommError as e:
                discs.append(Disc(f"reupload.raises.{type(e).__name__}", f"{e!r} <- {e.__cause__!r}"[:400]))
            # put the first project back for the comparisons below
            snap1 = snap1
        pages = sum(1 for e in tgt.log if e["service"] == 0x55)
        frags = sum(1 for e in tgt.log if e["service"] == 0x4C and e["segs"] and e["segs"][0][:2] == ("class", 0x6C))
        n_tmpl = len({e["segs"][1][1] for e in tgt.log if e["service"] == 0x4C and e["segs"] and e["segs"][0][:2] == ("class", 0x6C)})
        if pages > 1 + len(pd["programs"]):
            cls.add("multi-page")
        if frags > n_tmpl:
            cls.add("multi-fragment")
        if any(m["kind"] in ("bit", "udt") for u in pd["udts"] if u["name"] in seen for m in u["members"]):
            cls.add("nested-or-bool")
        if any(t.get("scope") for t in pd["tags"]):
            cls.add("program-tags")
        if pd["extras"]:
            cls.add("system-symbols")
        if any(":" in t["name"] for t in pd["tags"]):
            cls.add("module-tags")
        cls.add("fw>=21" if fw >= 21 else "fw18-20" if fw >= 18 else "fw<18")
        # get_tag_list variants
        variant = case.get("variant")
        if variant == "controller-only":
            tl = plc.get_tag_list(program=None)
            names = sorted(x["tag_name"] for x in tl)
            exp = sorted(expected_tags(p, [None]))
            if names != exp:
                discs.append(Disc("get_tag_list.controller", f"{names[:6]} != {exp[:6]}"))
        elif variant == "one-program" and pd["programs"]:
            prog = pd["programs"][0]["name"]
            # the scope may be given as the controller (and read()) spell it, "Program:<name>": the request accepts that spelling
            spelled = "Program:" + prog if case.get("alt", {}).get("page_size", 0) % 2 else prog
            tl = plc.get_tag_list(program=spelled)
            names = sorted(x["tag_name"] for x in tl)
            exp = sorted(expected_tags(p, [prog]))
            if names != exp:
                discs.append(Disc("get_tag_list.program", f"program {spelled}: {names[:6]} != {exp[:6]}"))
            elif sorted(plc.tags) != exp:
                discs.append(Disc("get_tag_list.program.cache", f"program {spelled}: tags holds {sorted(plc.tags)[:6]}, expected {exp[:6]}"))
        plc.close()
    finally:
        harness.uninstall()
    # metamorphic: another pagination / fragmentation gives the identical result
    p2, tgt2, plc2, d2 = upload(case, case["alt"])
    if plc2 is None:
        discs.append(Disc("metamorphic.open-fails", f"with {case['alt']}: {d2[0].detail}"))
    else:
        try:
            snap2 = snapshot(plc2)
            if snap1 != snap2:
                discs.append(Disc("metamorphic.pagination", f"upload differs between page/fragment sizes {case['cfg']['page_size']}/{case['cfg']['tmpl_frag']} and {case['alt']}"))
            plc2.close()
        finally:
            harness.uninstall()
    if case.get("no_program_tags"):
        p3, tgt3, plc3, d3 = upload(case, None, init_program_tags=False)
        if plc3 is not None:
            try:
                exp = set(expected_tags(p, [None]))
                if set(plc3.tags) != exp:
                    discs.append(Disc("init_program_tags.false", f"{sorted(set(plc3.tags) ^ exp)[:6]}"))
                plc3.close()
            finally:
                harness.uninstall()
    if case.get("variant") == "one-program" and pd["programs"]:
        # the same request on a driver that did not upload anything at open (init_tags=False): get_tag_list is the first upload
        from pycomm3.exceptions import PycommError
        prog = pd["programs"][0]["name"]
        p4, tgt4, plc4, d4 = upload(case, None, init_tags=False)
        if plc4 is not None:
            try:
                try:
                    tl = plc4.get_tag_list(program=prog)
                    names = sorted(x["tag_name"] for x in tl)
                    exp = sorted(expected_tags(p, [prog]))
                    if names != exp or sorted(plc4.tags) != exp:
                        discs.append(Disc("get_tag_list.program.first-upload", f"program {prog} on a driver opened with init_tags=False: {names[:6]} != {exp[:6]}"))
                except PycommError as e:
                    discs.append(Disc("get_tag_list.program.first-upload.raises", f"program {prog} on a driver opened with init_tags=False: {e!r} <- {e.__cause__!r}"[:400]))
                plc4.close()
            finally:
                harness.uninstall()
    nt = "nested-or-bool" in cls and bool(cls & {"multi-page", "multi-fragment"})
    return discs, nt, sorted(cls)


@st.composite
def cases(draw):
    pd = draw(G.projects(max_tags=8, size_bias=["scalar", "scalar", "small", "small", "medium"]))
    seeds = draw(G.memory_seeds(pd))
    cfg = draw(G.target_cfgs(allow_micro800=False))
    cfg["read_cap"] = None
    alt = {"page_size": draw(st.one_of(st.integers(1, 600), st.sampled_from([1, 30, 480]))),
           "tmpl_frag": draw(st.one_of(st.integers(1, 600), st.sampled_from([1, 3, 480])))}
    return {"pd": pd, "seeds": seeds, "cfg": cfg, "alt": alt, "op": "upload", "reqs": [],
            "variant": draw(st.sampled_from([None, "controller-only", "one-program"])), "no_program_tags": draw(st.integers(0, 3)) == 0,
            "edit": draw(st.one_of(st.none(), st.integers(0, 50)))}


def sample_of(case):
    pd = case["pd"]
    return {"udts": [f"{u['name']}({len(u['members'])} members, {u['size']}B)" for u in pd["udts"]][:5],
            "tags": [f"{t.get('scope') or ''}/{t['name']}:{t['type']}{t['dims']}#{t['instance']}" for t in pd["tags"]][:6],
            "extras": [x["name"] for x in pd["extras"]], "page": case["cfg"]["page_size"], "frag": case["cfg"]["tmpl_frag"], "alt": case["alt"],
            "fw": case["cfg"]["identity"]["major"]}


def plan(tier):
    n = 16 if tier == "quick" else 64
    per = 150 if tier == "quick" else 1600
    return [{"part": "upload", "examples": per} for _ in range(n)]


def run_job(ctx, job):
    hyp_search(ctx, "case", cases(), check_case, job["examples"], sample_of=sample_of)


def replay(ctx, kind, case):
    return check_case(case)[0]
