"""C12 - Reply frames survive any TCP segmentation."""
import itertools
import struct

from hypothesis import strategies as st

from ..rawsock import FakeRaw, SocketShim, StepBudgetExceeded, install_shim, uninstall_shim
from ..runner import Disc, hyp_search

PID = "C12"
LEVEL = "fault_enumeration"
TECHNIQUE = ("exhaustive enumeration of every composition of the 24-byte frame into recv chunks and of all boundary cut sets of larger frames, "
             "Hypothesis-drawn compositions, partial-send patterns and fault positions, against a scripted fake of the socket module; oracle = exact "
             "bytes or CommError within a step budget")
RULE = ("receive case = (frame = 24-byte header + body of length L in {0,1,2,231,232,233,488,4000,65511} or drawn, set of cut points = a composition of "
        "the frame length into recv chunk sizes, optional fault after k delivered bytes: peer close / timeout / reset); send case = (message length, "
        "partial-send counts, optional fault: send returns 0 / raises); all 2^23 compositions of the minimal frame (thorough) and all subsets of the "
        "boundary cut set {1,2,3,4,5,23,24,25,255,256,257,511,512,len-2,len-1} per frame; non-trivial = >= 2 chunks or a fault; distinct = (L, cuts, fault)")
LEVEL_TEXT = ("The network's segmentation of a byte stream is owned completely by the fake socket, so it is an input: small frames are enumerated "
              "exhaustively, every boundary class of larger frames is enumerated, and a fault is injected after every number of delivered bytes of "
              "the explored frames; non-termination is turned into a failure by a step budget on recv/send calls.")
ASSUMPTIONS = [
    "pycomm3.socket_.socket (the module's reference to the socket module) is replaced by a scripted shim; the real Socket loops run unmodified",
    "one reply frame is in flight at a time (request/response lock step), so a chunk never carries bytes of a following frame",
]
FLOORS = {"quick": {"recv-composition": 50000, "recv-fault": 3000, "send": 3000}, "thorough": {"recv-composition": 5000000, "recv-fault": 40000, "send": 40000}}
EXHAUSTIVE = False

BODY_LENS = [0, 1, 2, 231, 232, 233, 488, 4000, 65511]


STATUSES = [0, 0, 1, 2, 3, 0x64, 0x65, 0x69, 0x04, 0x66, 0xFFFF, 0x80000000]
COMMANDS = [0x70, 0x6F, 0x65, 0x63, 0x66, 0x04, 0x64, 0x00]


def make_frame(L, salt=0):
    """framing depends on the length field only: every other header field varies with `salt` (salt 0: a plain SendUnitData reply)"""
    body = bytes((i * 7 + salt) & 0xFF for i in range(L))
    if salt == 0:
        return struct.pack("<HHII8sI", 0x70, L, 0x11223344, 0, b"_pycomm_", 0) + body
    return struct.pack("<HHII8sI", COMMANDS[(salt // 12) % len(COMMANDS)], L, (salt * 0x01000193) & 0xFFFFFFFF, STATUSES[salt % len(STATUSES)],
                       bytes((salt ^ (i * 37)) & 0xFF for i in range(8)), (salt >> 7) * 0xDEAD) + body


def check_receive(L, cuts, fault=None, salt=0):
    """cuts: sorted cut points inside (0, len(frame)); fault = (delivered_bytes, kind) or None"""
    from pycomm3.exceptions import CommError
    import pycomm3.socket_ as sk
    frame = make_frame(L, salt)
    pts = [0] + [c for c in cuts if 0 < c < len(frame)] + [len(frame)]
    chunks = [frame[a:b] for a, b in zip(pts, pts[1:])]
    script = []
    if fault is not None:
        k, kind = fault
        k = min(k, len(frame) - 1)
        # deliver exactly k bytes (respecting the cuts), then the fault
        out, acc = [], 0
        for ch in chunks:
            if acc + len(ch) <= k:
                out.append(ch)
                acc += len(ch)
            else:
                if k - acc > 0:
                    out.append(ch[:k - acc])
                break
        script = [("data", c) for c in out] + [("fault", kind)]
    else:
        script = [("data", c) for c in chunks]
    shim = SocketShim(recv_script=script, budget=2 * len(frame) + 64)
    install_shim(shim)
    tagd = f"L={L} cuts={list(cuts)[:12]}{'...' if len(cuts) > 12 else ''} fault={fault}"
    try:
        s = sk.Socket(1.0)
        try:
            got = s.receive()
        except CommError:
            if fault is None:
                return [Disc("recv.commerror-without-fault", tagd)]
            return []
        except StepBudgetExceeded:
            return [Disc(f"recv.nonterminating.{fault[1] if fault else 'nofault'}", f"{tagd}: more than {shim.budget0} recv calls")]
        except Exception as e:
            return [Disc(f"recv.foreign.{type(e).__name__}.{'fault' if fault else 'first-chunk-%d' % min(len(chunks[0]), 4)}", f"{tagd}: {e!r}")]
        if fault is not None:
            return [Disc(f"recv.partial-returned.{fault[1]}", f"{tagd}: returned {len(got)} bytes although the peer failed before the frame was complete")]
        if got != frame:
            return [Disc("recv.bytes", f"{tagd}: returned {len(got)} bytes, frame has {len(frame)}; first diff at {next((i for i, (a, b) in enumerate(zip(got, frame)) if a != b), min(len(got), len(frame)))}")]
        if shim.raw.recv_pos != len(shim.raw.recv_script):
            return [Disc("recv.left-unread", f"{tagd}: {len(shim.raw.recv_script) - shim.raw.recv_pos} scripted chunks not consumed")]
        return []
    finally:
        uninstall_shim()


def check_send(n, counts, fault=None):
    """counts: partial-send sizes; fault = (call_index, kind) kind in zero|pipe|timeout|reset"""
    from pycomm3.exceptions import CommError
    import pycomm3.socket_ as sk
    msg = bytes((i * 13 + 5) & 0xFF for i in range(n))
    shim = SocketShim(send_script=list(counts), send_fault=fault, budget=2 * n + 64)
    install_shim(shim)
    tagd = f"n={n} counts={list(counts)[:12]} fault={fault}"
    try:
        s = sk.Socket(1.0)
        try:
            ret = s.send(msg)
        except CommError:
            if fault is None or (fault[0] >= shim.raw.send_calls and b"".join(shim.raw.accepted) == msg):
                return [Disc("send.commerror-without-fault", tagd)]
            return []
        except StepBudgetExceeded:
            return [Disc("send.nonterminating", f"{tagd}: more than {shim.budget0} send calls")]
        except Exception as e:
            return [Disc(f"send.foreign.{type(e).__name__}", f"{tagd}: {e!r}")]
        sent = b"".join(shim.raw.accepted)
        if sent != msg:
            return [Disc("send.bytes", f"{tagd}: underlying socket accepted {len(sent)} bytes, message has {n}; equal prefix {sum(1 for _ in itertools.takewhile(lambda ab: ab[0] == ab[1], zip(sent, msg)))}")]
        if fault is not None and fault[0] < shim.raw.send_calls:
            return [Disc(f"send.fault-ignored.{fault[1]}", f"{tagd}: send returned {ret} although the transport failed")]
        if ret != n and n > 0:
            return [Disc("send.return", f"{tagd}: returned {ret}")]
        return []
    finally:
        uninstall_shim()


def check_longlived(nframes):
    from pycomm3.exceptions import CommError
    import pycomm3.socket_ as sk
    shim = SocketShim(budget=10 * nframes + 1000)
    install_shim(shim)
    try:
        s = sk.Socket(1.0)
        raw = shim.raw
        for i in range(nframes):
            L = (i * 7) % 40
            frame = make_frame(L, i & 0xFF)
            cut = 1 + (i % (len(frame) - 1)) if i % 3 == 0 else None
            raw.recv_script = [("data", frame[:cut]), ("data", frame[cut:])] if cut else [("data", frame)]
            raw.recv_pos = 0
            try:
                got = s.receive()
            except CommError as e:
                return [Disc("longlived.recv.commerror", f"frame #{i + 1} on one Socket object: complete frame delivered but receive raised {e!r}")]
            except Exception as e:
                return [Disc(f"longlived.recv.foreign.{type(e).__name__}", f"frame #{i + 1}: {e!r}")]
            if got != frame:
                return [Disc("longlived.recv.bytes", f"frame #{i + 1} on one Socket object: returned {len(got)} bytes, expected {len(frame)}")]
            if i % 5 == 0:
                raw.accepted = []
                raw.send_script = [1, 2] if i % 10 == 0 else []
                raw.send_calls = 0
                msg = frame[: 24 + L]
                try:
                    s.send(msg)
                except Exception as e:
                    return [Disc(f"longlived.send.raises.{type(e).__name__}", f"message #{i + 1}: {e!r}")]
                if b"".join(raw.accepted) != msg:
                    return [Disc("longlived.send.bytes", f"message #{i + 1} on one Socket object not delivered verbatim")]
        return []
    finally:
        uninstall_shim()


def boundary_set(flen):
    return sorted({c for c in [1, 2, 3, 4, 5, 23, 24, 25, 255, 256, 257, 511, 512, flen - 2, flen - 1] if 0 < c < flen})


FAULTS = ["close", "timeout", "reset"]


def plan(tier):
    jobs = []
    if tier == "thorough":
        for hi in range(256):
            jobs.append({"part": "exh24", "hi": hi, "bits": 15})
    else:
        for hi in range(16):
            jobs.append({"part": "exh24", "hi": hi, "bits": 12, "sample": True})
    for L in BODY_LENS:
        jobs.append({"part": "boundary", "L": L, "max_subset": 3 if tier == "quick" else 15})
        jobs.append({"part": "faults", "L": L})
    jobs.append({"part": "longlived", "frames": 70000 if tier == "quick" else 200000})
    n = 8 if tier == "quick" else 32
    for i in range(n):
        jobs.append({"part": "random", "what": "recv" if i % 2 else "send", "examples": 900 if tier == "quick" else 8000})
    return jobs


def run_job(ctx, job):
    part = job["part"]
    if part == "longlived":
        # one Socket object for the whole life of a connection: more than 65 535 frames / recv calls / sends on the same object
        for d in check_longlived(job["frames"]):
            ctx.violation(d, "longlived", {"frames": job["frames"]})
        ctx.bulk(job["frames"], [hash(("longlived", job["frames"])) & 0xFFFFFFFF, 1], {"recv-composition": job["frames"], "long-lived-frames": job["frames"]})
        return
    if part == "exh24":
        # compositions of the 24-byte frame = subsets of the 23 interior cut points
        if job.get("sample"):
            # quick: all subsets of 16 chosen cut points (first 8 and last 8), 2^16 cases split over 16 jobs
            pts = [1, 2, 3, 4, 5, 6, 7, 8, 16, 17, 18, 19, 20, 21, 22, 23]
            for lo in range(1 << job["bits"]):
                mask = (job["hi"] << job["bits"]) | lo
                cuts = [p for i, p in enumerate(pts) if mask >> i & 1]
                _rec(ctx, 0, cuts, None)
            ctx.exhaustive_parts.append("all subsets of 16 cut points of the 24-byte frame")
        else:
            for lo in range(1 << job["bits"]):
                mask = (job["hi"] << job["bits"]) | lo
                cuts = [i + 1 for i in range(23) if mask >> i & 1]
                _rec(ctx, 0, cuts, None)
            ctx.exhaustive_parts.append("all 2^23 compositions of the 24-byte frame")
    elif part == "boundary":
        L = job["L"]
        flen = 24 + L
        b = boundary_set(flen)
        for r in range(0, min(job["max_subset"], len(b)) + 1):
            for cuts in itertools.combinations(b, r):
                _rec(ctx, L, list(cuts), None)
        _rec(ctx, L, list(range(1, min(flen, 700))), None)   # one-byte chunks
        ctx.exhaustive_parts.append(f"boundary cut sets (subsets up to size {job['max_subset']}) of every listed frame length")
    elif part == "faults":
        L = job["L"]
        flen = 24 + L
        ks = sorted(set(list(range(0, min(flen, 60))) + [k for k in (230, 255, 256, 257, 300, 511, 512, flen - 2, flen - 1) if 0 <= k < flen]))
        for k in ks:
            for kind in FAULTS:
                for cuts in ([], [1], [3], [4], [24], boundary_set(flen)):
                    _rec(ctx, L, cuts, (k, kind))
    else:
        @st.composite
        def cases(draw):
            if job["what"] == "recv":
                L = draw(st.one_of(st.sampled_from(BODY_LENS), st.integers(0, 600), st.integers(0, 5000), st.integers(0, 65511)))
                flen = 24 + L
                cuts = sorted(set(draw(st.lists(st.one_of(st.integers(1, max(1, flen - 1)), st.sampled_from(boundary_set(flen) or [1])), max_size=12))))
                fault = None
                if draw(st.integers(0, 2)) == 0:
                    fault = [draw(st.integers(0, flen - 1)), draw(st.sampled_from(FAULTS))]
                return {"k": "recv", "L": L, "cuts": cuts, "fault": fault, "salt": draw(st.integers(0, 255))}
            n = draw(st.one_of(st.integers(1, 60), st.integers(1, 4100)))
            counts = draw(st.lists(st.one_of(st.integers(1, 8), st.integers(1, 5000)), max_size=20))
            fault = None
            if draw(st.integers(0, 2)) == 0:
                fault = [draw(st.integers(0, 20)), draw(st.sampled_from(["zero", "pipe", "timeout", "reset"]))]
            return {"k": "send", "n": n, "counts": counts, "fault": fault}

        def check_case(c):
            if c["k"] == "recv":
                d = check_receive(c["L"], c["cuts"], tuple(c["fault"]) if c["fault"] else None, c["salt"])
                return d, bool(c["cuts"]) or bool(c["fault"]), ["recv-fault" if c["fault"] else "recv-composition"]
            d = check_send(c["n"], c["counts"], tuple(c["fault"]) if c["fault"] else None)
            return d, True, ["send"]

        hyp_search(ctx, "random", cases(), check_case, job["examples"])


def _rec(ctx, L, cuts, fault):
    salt = (L * 5 + 3 * len(cuts) + sum(cuts[:3])) & 0xFF     # header contents vary over the enumerated cases too
    discs = check_receive(L, cuts, fault, salt)
    ctx.evaluations += 1
    if cuts or fault:
        if len(ctx.nt) < 3_000_000:
            ctx.nt.add(hash((L, tuple(cuts), fault)) & 0xFFFFFFFFFFFFFFF)
        else:
            ctx.nt_overflow += 1
    ctx.classes["recv-fault" if fault else "recv-composition"] += 1
    if len(ctx.samples) < 3 and len(cuts) >= 2:
        ctx.samples.append({"body_len": L, "cuts": cuts[:10], "fault": fault})
    for d in discs:
        ctx.violation(d, "recv", {"L": L, "cuts": cuts, "fault": list(fault) if fault else None, "salt": salt})


def replay(ctx, kind, case):
    if kind == "longlived":
        return check_longlived(case["frames"])
    if kind == "recv" or case.get("k") == "recv":
        return check_receive(case["L"], case["cuts"], tuple(case["fault"]) if case.get("fault") else None, case.get("salt", 0))
    return check_send(case["n"], case["counts"], tuple(case["fault"]) if case.get("fault") else None)
