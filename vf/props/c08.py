"""C08 - Codec failures are DataError: never foreign, silent or non-terminating.

  E1  encode(out-of-domain value) raises DataError: never returns, never another exception type
  D1  decode(any bytes) returns or raises DataError (BufferEmptyError is a DataError); nothing else;
      bounded number of stream reads (step budget)
  D2  where the reference codec finds the bytes too short / malformed, the library does not return a value
  D3  BufferEmptyError only if no byte of the primitive being read was present (per the reference walk)
  D4  an unbounded array over k whole elements decodes exactly those k
"""
import io
import os
import subprocess
import sys
import tempfile

from hypothesis import strategies as st

from .. import codec_common as C
from .. import refcodec as R
from ..refcodec import T
from ..runner import Disc, HarnessError, VERIF, hyp_search
from .c06 import kind_sig, classes_of
from .c07 import ref_wire, _shape

PID = "C08"
LEVEL = "exploration"
TECHNIQUE = ("Hypothesis generation of out-of-domain values, every truncation point of valid encodings, byte mutations and random "
             "bytes, plus coverage-guided (atheris) byte fuzzing of decode; oracle = exception-type discipline + reference codec + step budget")
RULE = ("encode side: (type, out-of-domain value, kind of badness) built per type (boundary+-1, huge, wrong Python type, None, too few "
        "elements, wrong bit-string length, non-sequence, unencodable character, over-long for the prefix, missing key); decode side: "
        "(type, bytes) with bytes = every truncation point of a valid encoding / empty / single-byte mutation / random / atheris-found; "
        "non-trivial = rejected for a reason other than an empty buffer, or a mid-value truncation; distinct = hash of (type, input)")
LEVEL_TEXT = ("Generated-input search with an exception-discipline oracle and a reference codec that says which inputs are malformed; "
              "all truncation points of each generated encoding are enumerated; atheris adds coverage-guided bytes.")
ASSUMPTIONS = [
    "BOOL has no out-of-domain values (truthiness) and n_bytes(-1) accepts everything; both are excluded from E1/D2",
    "out-of-domain values are limited to the classes the property lists; astral characters for STRING2, over-long fixed-capacity "
    "strings and too-short n_bytes input are not asserted here",
    "the reference codec decides which byte strings are too short or malformed",
    "atheris campaigns are only approximately reproducible; their saved failing input is the replay unit",
]
FLOORS = {"quick": {"encode-bad": 1500, "truncation": 10000, "mutation": 1000, "random": 1000},
          "thorough": {"encode-bad": 30000, "truncation": 200000, "mutation": 20000, "random": 20000}}


class StepBudgetExceeded(BaseException):
    pass


class CountingStream(io.BytesIO):
    def __init__(self, data, budget):
        super().__init__(data)
        self.budget = budget

    def read(self, *a):
        self.budget -= 1
        if self.budget < 0:
            raise StepBudgetExceeded()
        return super().read(*a)


def where(e):
    import traceback
    tb = traceback.extract_tb(e.__traceback__)
    return next((f"{f.filename.split('/')[-1]}:{f.name}" for f in reversed(tb) if "/pycomm3/" in f.filename), "harness")


def open_ended(t):
    k = t["k"]
    if k == "nbytes":
        return t["n"] == -1
    if k == "array":
        return t["len"] is None or open_ended(t["el"])
    if k == "struct":
        return any(open_ended(mt) for _, mt in t["members"])
    return False


# ------------------------------------------------------------------------------------------------
# decode discipline
# ------------------------------------------------------------------------------------------------
def check_decode_any(t, buf, as_bytes=False):
    from pycomm3.exceptions import DataError, BufferEmptyError

    sig = kind_sig(t)
    buf = bytes(buf)
    try:
        want, used = R.dec(t, buf, 0)
        ref = ("ok", want, used)
    except R.RefShort as e:
        ref = ("short", e.at_start, None)
    except R.RefBad:
        ref = ("bad", None, None)
    typ = C.build(t)
    budget = 4 * len(buf) + 64
    try:
        if as_bytes:
            got = typ.decode(buf)
        else:
            got = typ.decode(CountingStream(buf, budget))
        outcome = ("value", got)
    except BufferEmptyError:
        outcome = ("empty", None)
    except DataError:
        outcome = ("dataerror", None)
    except StepBudgetExceeded:
        return [Disc(f"nonterminating.{sig}", f"type={t} bytes={buf.hex()[:200]}: more than {budget} stream reads")]
    except RecursionError:
        raise
    except Exception as e:
        if where(e) == "harness":
            raise
        return [Disc(f"decode.foreign.{type(e).__name__}.{where(e)}", f"type={t} bytes={buf.hex()[:300]}: {e!r}"[:700])]
    discs = []
    if ref[0] == "ok":
        if outcome[0] != "value":
            discs.append(Disc(f"decode.rejects-valid.{sig}", f"type={t} bytes={buf.hex()[:300]} reference={want!r}"[:700]))
        else:
            g = bytes(outcome[1]) if isinstance(outcome[1], bytearray) else outcome[1]
            if not R.ref_equal(g, _shape(t, want)):
                discs.append(Disc(f"decode.value.{sig}", f"type={t} bytes={buf.hex()[:300]} library={g!r} reference={want!r}"[:800]))
    else:
        if outcome[0] == "value":
            why = "too short" if ref[0] == "short" else "malformed"
            discs.append(Disc(f"silent.decode.{sig}", f"type={t} bytes={buf.hex()[:300]} are {why} for the type but decode returned {outcome[1]!r}"[:800]))
        elif outcome[0] == "empty":
            if ref[0] == "bad":
                discs.append(Disc(f"bufferempty.malformed.{sig}", f"type={t} bytes={buf.hex()[:300]}: BufferEmptyError for malformed (not short) data"))
            elif ref[1] is False:
                discs.append(Disc(f"bufferempty.midvalue.{sig}", f"type={t} bytes={buf.hex()[:300]}: BufferEmptyError although part of the value being read was present"))
    return discs


def decode_blamed(t, buf, **kw):
    """Attribute a failure to the innermost component type that shows it on its own bytes."""
    discs = check_decode_any(t, buf, **kw)
    if not discs:
        return discs
    k = t["k"]
    subs = []
    if k == "array":
        subs = [t["el"]]
    elif k == "struct":
        subs = [mt for _, mt in t["members"]]
    for s_ in subs:
        for start in range(0, min(len(buf), 24)):
            d2 = decode_blamed(s_, buf[start:], **kw)
            if d2 and d2[0].bucket.split(".")[0:2] == discs[0].bucket.split(".")[0:2]:
                return d2
    return discs


# ------------------------------------------------------------------------------------------------
# encode discipline
# ------------------------------------------------------------------------------------------------
JUNK = [None, 1.5, "x", b"\x01", [1], {"zz": 1}, 2 ** 70, -(2 ** 70)]


@st.composite
def bad_values(draw, t):
    """(value, badness label) - value is outside the domain of t by construction."""
    k = t["k"]
    if k in R.INTS:
        lo, hi = R.INT_RANGE[k]
        if draw(st.integers(0, 5)) == 0:
            # an integral float: equal to (and hashing like) a valid int, still not an integer
            n = draw(st.one_of(st.sampled_from([0, 1, 7, 100, hi, lo]), st.integers(max(lo, -(2 ** 31)), min(hi, 2 ** 31))))
            return (-0.0 if n == 0 and draw(st.booleans()) else float(n)), "float-integral"
        return draw(st.sampled_from([(hi + 1, "range+1"), (lo - 1, "range-1"), (2 ** 70, "huge"), (-(2 ** 70), "huge"), ({"__pow10__": 5000}, "huge-repr"),
                                     (1.5, "float"), (None, "none"), ("1", "str"), (b"\x01", "bytes"), ([1], "list")]))
    if k in R.FLOATS:
        opts = [(None, "none"), ("1.0", "str"), ([1.0], "list"), (b"\x00" * 4, "bytes")]
        if k == "REAL":
            opts.append((1e39, "range"))
        return draw(st.sampled_from(opts))
    if k in R.BITS:
        n = R.BITS[k] * 8
        m = draw(st.sampled_from([0, 1, n - 1, n + 1, 2 * n]))
        return draw(st.sampled_from([([False] * m, "bitlen"), (None, "none"), (5, "nonseq")]))
    if k in R.STR_PREFIX or k == "fixedstr":
        opts = [(None, "none"), (5, "int"), (["a", "b"], "list")]
        if k == "fixedstr":
            opts.append(("Āb", "unencodable"))   # first character: over-long values are truncated to the capacity before encoding
        elif k != "STRING2":
            opts.append(("abĀ", "unencodable"))
        if k == "SHORT_STRING":
            opts.append(("x" * 256, "prefix-overflow"))
        if k in ("STRING", "STRING2"):
            opts.append(("x" * 65536, "prefix-overflow"))
        if k == "STRING2":
            opts.append(("a\U0001F600b", "multi-unit"))    # not a 2-byte character: the count and the data would disagree
        return draw(st.sampled_from(opts))
    if k == "STRINGN":
        opts = [(None, "none"), (5, "int"), ("x" * 65536, "prefix-overflow")]
        if t.get("cs", 1) == 1:
            opts.append(("ab\u0100", "unencodable"))         # not a 1-byte character
        if t.get("cs", 1) == 2:
            opts.append(("a\U0001F600b", "multi-unit"))
        return draw(st.sampled_from(opts))
    if k == "nbytes":
        n = t["n"]
        opts = [(None, "none"), (5, "int"), ("ab" * max(n, 1), "str"), ([1] * max(n, 1), "list")]
        if n >= 1:
            opts.append(({"__container__": "bytes", "items": [7] * draw(st.integers(0, n - 1))}, "too-few"))   # fewer bytes than the fixed width
        return draw(st.sampled_from(opts))
    if k == "ip":
        return draw(st.sampled_from([("256.1.1.1", "range"), ("1.2.3", "short"), ("a.b.c.d", "letters"), (None, "none"),
                                     ("1.2.3.4.5", "long"), ("", "empty")]))
    if k == "revision":
        return draw(st.sampled_from([({"major": 256, "minor": 0}, "range"), ({"major": 1}, "missing-key"), (None, "none"), (5, "int")]))
    if k == "DATE_AND_TIME":
        return draw(st.sampled_from([([2 ** 32, 0], "range"), ([0, 65536], "range"), ([None, 0], "none"), (["a", "b"], "str")]))
    if k == "STRINGI":
        return draw(st.sampled_from([([["x", "STRING", "eng", 70000]], "charset-range"),
                                     ([[5, "STRING", "eng", 4]], "string-int"), ([["x", "STRING", "Āng", 4]], "lang-nonascii"),
                                     ([["x", "STRING", "en", 4]], "lang-length"), ([["x", "STRING", "engl", 4]], "lang-length"), ([["x", "STRING", "", 4]], "lang-length"),
                                     ([["x", "LOGIX_STRING", "eng", 4]], "string-type"), ([[5, "DINT", "eng", 4]], "string-type"),
                                     ([["Ā", "SHORT_STRING", "eng", 4]], "unencodable")])) if True else None
    if k == "array":
        ln, el = t["len"], t["el"]
        mult = R.BITS[el["k"]] * 8 if el["k"] in R.BITS else 1
        kinds = ["nonseq", "none"]
        if isinstance(ln, int):
            kinds.append("too-few")
        if el["k"] != "BOOL" and not (el["k"] == "nbytes"):
            kinds += ["bad-element", "bad-element"]
        kind = draw(st.sampled_from(kinds))
        if kind == "nonseq":
            return 5, "array.nonseq"
        if kind == "none":
            return None, "array.none"
        if kind == "too-few":
            n = draw(st.integers(0, ln - 1))
            good = [draw(C.values(el)) for _ in range(n)]
            if mult > 1:
                good = [b for chunk in good for b in chunk]
            return good, "array.too-few"
        n = ln if isinstance(ln, int) else draw(st.integers(1, 4))
        if el["k"] in ("SINT", "USINT", "INT", "UINT", "DINT") and draw(st.integers(0, 2)) == 0:
            # the same out-of-range element, handed over in another kind of sequence (bytes / bytearray / tuple)
            lo, hi = R.INT_RANGE[el["k"]]
            cont = draw(st.sampled_from(["bytes", "bytearray", "tuple"]))
            if cont == "tuple":
                vals = [0] * n
                vals[draw(st.integers(0, n - 1))] = hi + 1
                return {"__container__": "tuple", "items": vals}, "array.el.range.tuple"
            if hi < 255:   # only SINT has byte values outside its range
                vals = [1] * n
                vals[draw(st.integers(0, n - 1))] = draw(st.integers(hi + 1, 255))
                return {"__container__": cont, "items": vals}, "array.el.range." + cont
        if mult > 1:
            # a bit-string array whose total length is not a whole number of elements
            return [False] * (n * mult + draw(st.integers(1, mult - 1))) if not isinstance(ln, int) else [False] * (n * mult - 1), "array.bitlen"
        good = [draw(C.values(el)) for _ in range(n)]
        i = draw(st.integers(0, n - 1))
        bad, label = draw(bad_values(el))
        good[i] = bad
        return good, "array.el." + label
    if k == "struct":
        ms = t["members"]
        kind = draw(st.sampled_from(["too-few", "missing-key", "nonseq", "bad-member", "bad-member", "none"]))
        good = draw(C.values(t))
        seq = C.struct_as_sequence(t, good)
        if kind == "too-few":
            return seq[: draw(st.integers(0, len(ms) - 1))], "struct.too-few"
        if kind == "nonseq":
            return 5, "struct.nonseq"
        if kind == "none":
            return None, "struct.none"
        if kind == "missing-key":
            named = [n for n, _ in ms if n]
            if not named:
                return None, "struct.none"
            d = {(n if n is not None else ("" if mt["k"] == "nbytes" else None)): good["" if n is None else n] for n, mt in ms}
            drop = draw(st.sampled_from(named))
            d.pop(drop)
            return {"__dict__": [[("" if kk is None else kk), vv] for kk, vv in d.items()], "__nonekey__": [n is None for n, _ in ms]}, "struct.missing-key"
        cands = [i for i, (n, mt) in enumerate(ms) if mt["k"] not in ("BOOL",) and not (mt["k"] == "nbytes" and mt["n"] == -1)]
        if not cands:
            return None, "struct.none"
        i = draw(st.sampled_from(cands))
        bad, label = draw(bad_values(ms[i][1]))
        seq[i] = bad
        return seq, "struct.member." + label
    raise KeyError(k)


def _materialise(t, v):
    """bad struct dict marker -> real dict with None keys; container marker -> bytes / bytearray / tuple; an int too long to print"""
    if isinstance(v, dict) and "__pow10__" in v:
        return 10 ** v["__pow10__"]
    if isinstance(v, list) and any(isinstance(x, dict) and "__pow10__" in x for x in v):
        return [_materialise(None, x) if isinstance(x, dict) and "__pow10__" in x else x for x in v]
    if isinstance(v, dict) and "__container__" in v:
        return {"bytes": bytes, "bytearray": bytearray, "tuple": tuple}[v["__container__"]](v["items"])
    if isinstance(v, dict) and "__dict__" in v:
        out = {}
        for (kk, vv), (name, mt) in zip(v["__dict__"], [m for m in t["members"]]):
            pass
        names = {("" if n is None else n): (n if n is not None else ("" if mt["k"] == "nbytes" else None)) for n, mt in t["members"]}
        for kk, vv in v["__dict__"]:
            out[names.get(kk, kk)] = vv
        return out
    return v


def _int_twin(v):
    """the same value with every integral float replaced by the int it equals; (twin, changed)"""
    if isinstance(v, float) and v == v and abs(v) != float("inf") and v == int(v):
        return int(v), True
    if isinstance(v, list):
        parts = [_int_twin(x) for x in v]
        return [p[0] for p in parts], any(p[1] for p in parts)
    return v, False


def _r(v):
    try:
        return repr(v)
    except Exception:
        return f"<{type(v).__name__} whose repr() raises>"


def check_encode_bad(t, v, label):
    from pycomm3.exceptions import DataError
    sig = kind_sig(t)
    v = _materialise(t, v)
    twin, changed = _int_twin(v)
    if changed:
        # the refusal must not depend on what was encoded before: encode the equal, valid int value first
        try:
            C.lib_encode(t, twin) if t["k"] not in ("STRINGI", "DATE_AND_TIME") else _encode_star(t, twin)
        except Exception:
            pass
    try:
        out = C.lib_encode(t, v) if t["k"] not in ("STRINGI", "DATE_AND_TIME") else _encode_star(t, v)
    except DataError:
        return []
    except RecursionError:
        raise
    except Exception as e:
        if where(e) == "harness":
            raise
        return [Disc(f"encode.foreign.{type(e).__name__}.{where(e)}", f"type={t} value={_r(v)[:200]} ({label}): {e!r}"[:700])]
    return [Disc(f"silent.encode.{sig}.{label.split('.')[0] if sig.startswith(('array', 'struct')) else label}",
                 f"type={t} out-of-domain value={_r(v)[:200]} ({label}) was encoded to {out!r}"[:700])]


def _encode_star(t, v):
    typ = C.build(t)
    if t["k"] == "STRINGI":
        from pycomm3 import cip
        return typ.encode(*[(s, getattr(cip, stn), lang, cset) for (s, stn, lang, cset) in v])
    return typ.encode(*v)


def encode_blamed(t, v, label):
    discs = check_encode_bad(t, v, label)
    if not discs:
        return discs
    # attribute to the component when the component alone shows the same failure
    if t["k"] == "array" and label.startswith("array.el.") and isinstance(v, list):
        for x in v:
            try:
                R.enc(t["el"], _materialise(t["el"], x))
                continue          # an in-domain element is not to blame
            except Exception:
                pass
            d2 = check_encode_bad(t["el"], x, label[len("array.el."):])
            if d2:
                return d2
    if t["k"] == "struct" and label.startswith("struct.member.") and isinstance(v, list):
        for (n, mt), x in zip(t["members"], v):
            try:
                R.enc(mt, x)
                continue
            except Exception:
                pass
            d2 = encode_blamed(mt, x, label[len("struct.member."):])
            if d2:
                return d2
    return discs


# ------------------------------------------------------------------------------------------------
TYPES_FOR_FUZZ = None


def fuzz_types():
    """fixed table of types for the byte-level fuzz target (index = first input byte)"""
    global TYPES_FOR_FUZZ
    if TYPES_FOR_FUZZ is None:
        ts = [T(n) for n in ["BOOL", "SINT", "INT", "DINT", "LINT", "UINT", "UDINT", "ULINT", "REAL", "LREAL", "BYTE", "WORD", "DWORD",
                             "LWORD", "STRING", "SHORT_STRING", "LOGIX_STRING", "STRING2", "STRINGN", "STRINGI", "DATE_AND_TIME", "ip",
                             "revision"]]
        ts += [T("nbytes", n=3), T("nbytes", n=-1), T("fixedstr", size=5),
               T("array", len=3, el=T("INT"), via="factory"), T("array", len=None, el=T("DINT"), via="factory"),
               T("array", len={"lt": "USINT"}, el=T("UINT"), via="factory"), T("array", len=None, el=T("SHORT_STRING"), via="factory"),
               T("array", len={"lt": "UINT"}, el=T("STRING"), via="factory"), T("array", len=2, el=T("WORD"), via="factory"),
               T("array", len=None, el=T("BYTE"), via="factory"),
               T("struct", members=[["a", T("UINT")], ["b", T("STRING")], [None, T("USINT")], ["c", T("array", len={"lt": "USINT"}, el=T("INT"), via="factory")]]),
               T("struct", members=[["n", T("UINT")], ["s", T("STRINGI")], ["t", T("STRINGI")]]),
               T("struct", members=[["a", T("revision")], ["b", T("nbytes", n=2)], ["c", T("SHORT_STRING")], ["d", T("array", len=None, el=T("UINT"), via="factory")]]),
               T("structtag", size=12, members=[["a", T("DINT"), 0], ["ZZZZZZZZZZh", T("SINT"), 4], ["s", T("fixedstr", size=2), 6]],
                 bits={"x": [4, 0], "y": [4, 7]}, private=["ZZZZZZZZZZh"])]
        TYPES_FOR_FUZZ = ts
    return TYPES_FOR_FUZZ


ZERO_WIDTH = [(T("array", len=0, el=T("USINT"), via="factory"), "USINT[0]"), (T("nbytes", n=0), "n_bytes(0)"),
              (T("array", len=None, el=T("array", len=0, el=T("UINT"), via="factory"), via="factory"), "UINT[0][None]")]


def check_zero_width(zi, buf):
    """an unbounded array of elements that consume no bytes: decode must end (the number of elements is undefined: DataError)"""
    import signal
    from pycomm3.exceptions import DataError as _DE

    class _Spin(BaseException):
        pass

    def _alarm(*a):
        raise _Spin()
    zt, label = ZERO_WIDTH[zi]
    t = T("array", len=None, el=zt, via="factory")
    old_h = signal.signal(signal.SIGALRM, _alarm)
    signal.setitimer(signal.ITIMER_REAL, 3.0)
    try:
        try:
            C.lib_decode(t, bytes(buf))
        finally:
            signal.setitimer(signal.ITIMER_REAL, 0)
            signal.signal(signal.SIGALRM, old_h)
    except _Spin:
        return [Disc("nonterminating.decode.zero-width-element", f"{label}[None].decode({bytes(buf)!r}) did not return within 3 s")]
    except MemoryError:
        return [Disc("nonterminating.decode.zero-width-element", f"{label}[None].decode({bytes(buf)!r}) allocated without bound")]
    except _DE:
        return []
    except Exception as e:
        return [Disc(f"decode.foreign.{type(e).__name__}.zero-width", f"{label}[None].decode({bytes(buf)!r}): {e!r}")]
    return []


_BIG = {"__pow10__": 5000}
PARAM_CASES = ([("array.too-few", el, ln, n) for el in ("SINT", "DINT", "REAL", "STRING") for ln in (1, 2, 255, 65536, 2 ** 31, 2 ** 64, _BIG) for n in (0, 1, 3) if n < (ln if isinstance(ln, int) else 9)]
               + [("array.too-few.length-arg", el, ln, n) for el in ("SINT", "DINT") for ln in (2, 65536, 2 ** 64, _BIG) for n in (0, 1)]
               + [("stringn.char-size", None, cs, 0) for cs in (0, 3, 5, 8, -1, 256, 65536, 2 ** 64, _BIG, None, "1", "utf-8")]
               + [("array.short.decode", el, ln, n) for el in ("SINT", "DINT") for ln in (2, 65536, 2 ** 64, _BIG) for n in (0, 1)]
               + [("array.short.decode.length-arg", el, ln, n) for el in ("SINT", "DINT") for ln in (2, 65536, 2 ** 64, _BIG) for n in (0, 1)]
               + [("array.nested.too-few", "DINT", ln, 1) for ln in (2, 2 ** 64, _BIG)])


def check_param_case(ci):
    from pycomm3.exceptions import DataError as _DE
    from pycomm3 import cip
    kind, el, par, n = PARAM_CASES[ci]
    par_v = _materialise(None, par) if isinstance(par, dict) else par
    try:
        if kind == "stringn.char-size":
            out = cip.STRINGN.encode("abc", par_v)
        elif kind.startswith("array.short.decode"):
            # a buffer that holds n elements (n < length) and then three bytes of a further one: short of the fixed length
            elt = getattr(cip, el)
            buf = b"\x01\x00\x00\x00" * n if el == "DINT" else b"\x01" * n
            buf += b"\x00\x00\x00" if el == "DINT" else b""
            out = cip.Array(par_v, elt).decode(buf) if kind == "array.short.decode" else cip.Array(None, elt).decode(buf, par_v)
        elif kind == "array.nested.too-few":
            out = cip.Array(2, cip.Array(par_v, cip.DINT)).encode([[1], [1]])
        else:
            elt = getattr(cip, el)
            vals = (["x"] if el == "STRING" else [1]) * n
            out = cip.Array(par_v, elt).encode(vals) if kind == "array.too-few" else cip.Array(None, elt).encode(vals, par_v)
    except _DE:
        return []
    except Exception as e:
        return [Disc(f"encode.foreign.{type(e).__name__}.{kind}", f"{kind} element={el} parameter={_r(par_v)[:60]} values={n}: {e!r}"[:500])]
    return [Disc(f"silent.encode.{kind}", f"{kind} element={el} parameter={_r(par_v)[:60]} with {n} values was encoded to {out[:40]!r}")]


def plan(tier):
    jobs = []
    n = 16 if tier == "quick" else 64
    for i in range(n):
        jobs.append({"part": "encode", "examples": 250 if tier == "quick" else 4000})
        jobs.append({"part": "decode", "examples": 150 if tier == "quick" else 3000})
    for i in range(4 if tier == "quick" else 16):
        jobs.append({"part": "atheris", "runs": 60000 if tier == "quick" else 1500000, "shard": i})
    jobs.append({"part": "unbound"})
    jobs.append({"part": "containers"})
    return jobs


def run_job(ctx, job):
    part = job["part"]
    if part == "encode":
        @st.composite
        def cases(draw):
            t = draw(C.types(depth=draw(st.integers(0, 2))).filter(lambda t: t["k"] not in ("BOOL",) and not (t["k"] == "nbytes" and t["n"] == -1)))
            v, label = draw(bad_values(t))
            return {"t": t, "v": v, "label": label}

        def check_case(case):
            return encode_blamed(case["t"], case["v"], case["label"]), True, ["encode-bad", "bad." + case["label"].split(".")[0]]

        hyp_search(ctx, "encode", cases(), check_case, job["examples"])
    elif part == "decode":
        @st.composite
        def cases(draw):
            if draw(st.integers(0, 4)) == 0:
                t = draw(C.structtags())
                wire = draw(st.binary(min_size=t["size"], max_size=t["size"]))
            else:
                t = draw(C.types(depth=draw(st.integers(0, 2)), derived_nested=True))
                v = draw(C.values(t))
                try:
                    wire = ref_wire(t, v)
                except R.RefDomain:
                    wire = b""
            muts = draw(st.lists(st.tuples(st.integers(0, max(len(wire) - 1, 0)), st.integers(0, 255)), min_size=1, max_size=3))
            rnd = draw(st.binary(max_size=24))
            return {"t": t, "wire": wire, "muts": muts, "rnd": rnd, "as_bytes": draw(st.booleans())}

        def check_case(case):
            discs, n = check_decode_case(ctx, case)
            return discs, True, classes_of(case["t"]) if case["t"]["k"] != "structtag" else ["template"]

        hyp_search(ctx, "decode", cases(), check_case, job["examples"])
    elif part == "containers":
        # out-of-range integers handed over in every kind of sequence (list / tuple / bytes / bytearray), for every integer element
        # type and array kind, bare and as a structure member
        for name in C.ELEM_INTS:
            lo, hi = R.INT_RANGE[name]
            for ln in (3, None, {"lt": "USINT"}):
                for cont in ("list", "tuple", "bytes", "bytearray"):
                    for pos in (0, 2):
                        bad = hi + 1
                        if cont in ("bytes", "bytearray"):
                            if hi >= 255:
                                continue
                            bad = 200
                        items = [1, 2, 3]
                        items[pos] = bad
                        arr = T("array", len=ln, el=T(name), via="factory")
                        for t, mk in ((arr, lambda x: x), (T("struct", members=[["a", T("UINT")], ["b", arr]]), lambda x: [7, x])):
                            v = mk({"__container__": cont, "items": items} if cont != "list" else items)
                            if isinstance(v, list) and isinstance(v[-1], dict):
                                v = [v[0], _materialise(arr, v[1])]
                            discs = check_encode_bad(t, v, f"array.el.range.{cont}")
                            ctx.case(("cont", name, str(ln), cont, pos, t["k"]), True, ["encode-bad", "bad.container"])
                            for d in discs:
                                ctx.violation(d, "encode", {"t": t, "v": v if not isinstance(v, (bytes, bytearray, tuple)) else list(v), "label": f"array.el.range.{cont}"})
        # "too few elements for a fixed array" for every size class of the fixed length (also lengths no sequence can reach and lengths
        # whose decimal form Python refuses to print), and STRINGN character sizes the type does not have
        for ci in range(len(PARAM_CASES)):
            ctx.case(("param", ci), True, ["encode-bad", "bad.param"])
            for d in check_param_case(ci):
                ctx.violation(d, "param", {"i": ci})
    elif part == "unbound":
        for name in ["SINT", "INT", "DINT", "LINT", "REAL", "LREAL", "BYTE", "WORD", "DWORD", "LWORD", "BOOL"]:
            el = T(name)
            size = R.BITS.get(name) or (1 if name == "BOOL" else (R.INTS.get(name) or R.FLOATS.get(name))[1])
            for k in range(0, 40):
                buf = bytes((7 * i + k) & 0xFF for i in range(k * size))
                t = T("array", len=None, el=el, via="factory")
                discs = check_decode_any(t, buf)
                try:
                    got = C.lib_decode(t, buf)
                    n_el = len(got) // (size * 8) if name in R.BITS else len(got)
                    if n_el != k:
                        discs.append(Disc("unbound.count", f"{name}[None] over {k} whole elements decoded {n_el}"))
                except Exception as e:
                    discs.append(Disc("unbound.raises", f"{name}[None] over {k} whole elements raised {e!r}"))
                ctx.case(("unbound", name, k), k > 0, ["unbound-whole"])
                for d in discs:
                    ctx.violation(d, "decode1", {"t": t, "buf": buf})
        # zero-width element types: an unbounded array of them has no defined length; decode must end (with DataError), not spin
        for zi in range(len(ZERO_WIDTH)):
            for buf in (b"", b"\x01\x02\x03"):
                ctx.case(("zero-width", zi, len(buf)), True, ["unbound-zero-width"])
                for d in check_zero_width(zi, buf):
                    ctx.violation(d, "zerowidth", {"i": zi, "buf": buf})
        # element types whose wire size is not a plain fixed-width number: fixed-capacity strings (LEN + data area),
        # DATE_AND_TIME (6 bytes), addresses, revisions; every count of whole elements from 0 to 90
        others = [(T("DATE_AND_TIME"), lambda i: [(i * 0x01010101 + 5) & 0xFFFFFFFF, (i * 257 + 3) & 0xFFFF]),
                  (T("ip"), lambda i: "10.%d.%d.7" % (i & 255, (3 * i) & 255)),
                  (T("revision"), lambda i: {"major": i & 255, "minor": (7 * i) & 255})]
        for size, cap in ((1, None), (2, None), (3, None), (8, None), (20, None), (82, None), (84, 82), (8, 5)):
            others.append((T("fixedstr", size=size, **({"cap": cap} if cap else {})), lambda i, n=(cap or size): ("abcdefghij" * 9)[: (i * 5) % (n + 1)]))
        for el, val in others:
            t = T("array", len=None, el=el, via="factory")
            one = len(R.enc(el, val(0)))
            for k in range(0, 91):
                vals = [val(i) for i in range(k)]
                buf = b"".join(R.enc(el, v) for v in vals)
                discs = check_decode_any(t, buf)
                want = [tuple(v) if el["k"] == "DATE_AND_TIME" else v for v in vals]
                try:
                    got = C.lib_decode(t, buf)
                    if len(got) != k:
                        discs.append(Disc("unbound.count", f"{kind_sig(el)}[None] over {k} whole elements ({one} bytes each) decoded {len(got)}"))
                    elif [tuple(g) if isinstance(g, (list, tuple)) else g for g in got] != want:
                        discs.append(Disc("unbound.value", f"{kind_sig(el)}[None] over {k} whole elements decoded {got!r}"[:400]))
                except Exception as e:
                    discs.append(Disc("unbound.raises", f"{kind_sig(el)}[None] over {k} whole elements ({one} bytes each) raised {e!r}"))
                ctx.case(("unbound", kind_sig(el), el.get("size"), k), k > 0, ["unbound-whole"])
                for d in discs:
                    ctx.violation(d, "decode1", {"t": t, "buf": buf})
    else:
        _atheris_part(ctx, job)


def check_decode_case(ctx, case):
    t, wire = case["t"], bytes(case["wire"])
    discs = []
    n = 0
    cuts = range(len(wire)) if len(wire) <= 96 else sorted(set(list(range(48)) + list(range(len(wire) - 48, len(wire)))))
    for cut in cuts:
        d = decode_blamed(t, wire[:cut], as_bytes=case.get("as_bytes", False))
        ctx.bulk(1, [], {"truncation": 1})
        n += 1
        if d:
            discs += d
            break
    b = bytearray(wire)
    for pos, val in case["muts"]:
        if b:
            b[pos % len(b)] = val
    discs += decode_blamed(t, bytes(b))
    ctx.bulk(1, [], {"mutation": 1})
    discs += decode_blamed(t, bytes(case["rnd"]))
    ctx.bulk(1, [], {"random": 1})
    # the whole encoding must decode
    discs += [d for d in decode_blamed(t, wire) if True]
    return discs, n


# ------------------------------------------------------------------------------------------------
# atheris (coverage-guided) part: runs in a subprocess, oracle inside the target
# ------------------------------------------------------------------------------------------------
def _atheris_part(ctx, job):
    deps = os.path.join(VERIF, ".deps")
    if not os.path.isdir(os.path.join(deps, "atheris")):
        ctx.inconclusive.append("atheris not installed (setup.sh could not install it); coverage-guided part skipped")
        return
    work = tempfile.mkdtemp(prefix="vf_c08_")
    try:
        corpus = os.path.join(work, "corpus")
        os.makedirs(corpus)
        seeds = os.path.join(VERIF, "corpus", "c08")
        if job["shard"] % 2 == 0 and os.path.isdir(seeds):  # odd shards start from the empty corpus
            for f in os.listdir(seeds):
                with open(os.path.join(seeds, f), "rb") as fh, open(os.path.join(corpus, f), "wb") as out:
                    out.write(fh.read())
        out_json = os.path.join(work, "found.json")
        env = dict(os.environ, VF_FUZZ_OUT=out_json, PYTHONPATH=os.pathsep.join([VERIF, deps]))
        cmd = [sys.executable, "-m", "vf.fuzz_decode", corpus, f"-runs={job['runs']}", f"-seed={ctx.seed}",
               "-max_len=64", "-verbosity=0", "-print_final_stats=1", f"-artifact_prefix={work}/"]
        def _unlimit():    # libFuzzer reserves a large address space; the worker's own memory cap does not apply to it
            import resource
            soft, hard = resource.getrlimit(resource.RLIMIT_AS)
            resource.setrlimit(resource.RLIMIT_AS, (hard, hard))
        r = subprocess.run(cmd, capture_output=True, text=True, env=env, cwd=VERIF, timeout=3600, preexec_fn=_unlimit)
        import json
        import re
        m = re.search(r"stat::number_of_executed_units:\s*(\d+)", r.stderr)
        execs = int(m.group(1)) if m else 0
        ncorp = len(os.listdir(corpus))
        ctx.bulk(execs, [], {"atheris-exec": execs})
        ctx.extra["atheris_execs"] = execs
        ctx.extra["atheris_corpus_files"] = ncorp
        if os.path.exists(out_json):
            rec = json.load(open(out_json))
            for hv in rec.get("nt", []):
                ctx.nt.add(hv)
            if rec.get("found"):
                data = bytes.fromhex(rec["found"]["data"])
                t, buf = split_fuzz_input(data)
                for d in check_decode_any(t, buf):
                    ctx.violation(d, "decode1", {"t": t, "buf": buf})
        elif r.returncode != 0:
            raise HarnessError(f"atheris target failed rc={r.returncode}: {r.stderr[-800:]}")
    finally:
        import shutil
        shutil.rmtree(work, ignore_errors=True)


def split_fuzz_input(data):
    ts = fuzz_types()
    if not data:
        return ts[0], b""
    return ts[data[0] % len(ts)], bytes(data[1:])


def replay(ctx, kind, case):
    if kind == "zerowidth":
        return check_zero_width(case["i"], case["buf"])
    if kind == "param":
        return check_param_case(case["i"])
    if kind == "encode":
        return encode_blamed(case["t"], case["v"], case["label"])
    if kind == "decode":
        return check_decode_case(ctx, case)[0]
    if kind == "decode1":
        return check_decode_any(case["t"], case["buf"])
    raise ValueError(kind)
