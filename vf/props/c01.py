"""C01 - Tag reads return exactly what the controller holds."""
from hypothesis import strategies as st

from .. import gen_project as G
from .. import gen_requests as Q
from .. import scenario as S
from ..project import Project
from ..runner import hyp_search

PID = "C01"
LEVEL = "exploration"
TECHNIQUE = "Hypothesis-generated controller projects, memory images, configurations and read request lists run through the real driver against an independent reference target; oracle = reference interpretation of the target's memory"
RULE = ("case = (project with UDTs/strings/BOOL arrays/program tags, memory image, target configuration {firmware, Micro800, Forward-Open "
        "policy -> 500/4000-byte connection, reply capacity, pagination}, list of read requests built from the project); non-trivial = the "
        "call contains a request that is not a bare scalar atomic read, or was split into >= 2 packets, or needed a fragmented transfer; "
        "distinct = hash of the whole case")
LEVEL_TEXT = ("Differential exploration: the driver is opened against a second, independent implementation of the protocol holding a "
              "generated project; every returned Tag is compared with the reference interpretation of the bytes the target holds.")
ASSUMPTIONS = [
    "RefPLC (vf/refplc.py) models Logix behaviour as documented in 1756-PM020; behaviours both sides get wrong alike are invisible",
    "projects are limited to the generator's shapes (nesting <= 3, <= 3 dimensions, BOOL arrays one-dimensional)",
    "memory images force string LEN fields into [0, capacity]; everything else is arbitrary bytes",
]
FLOORS = {"quick": {"read.struct": 50, "read.boolarray.range": 20, "read.intbit": 20, "multi-packet-split": 5, "fragmented-read": 150,
                    "read.string": 20, "read.member.atomic": 20, "multi-service": 900},   # the last two also fall when open() fails for many cases
          "thorough": {"read.struct": 1000, "read.boolarray.range": 500, "multi-packet-split": 100, "fragmented-read": 500}}
PROPS = ("C01",)


@st.composite
def cases(draw, op="read", invalid=False, many=False, size_bias=None, packing=False, fragfail=False, chunked=False, encap_refusal=False):
    """packing: many requests for small tags with long names (the request, not the reply, fills the packet);
    fragfail: few requests for large tags and one service - usually a fragment of a transfer under way - refused by the target"""
    if chunked:
        size_bias, many = ["huge", "huge", "window"], False
    if fragfail:
        size_bias, many = ["window", "huge", "huge", "medium"], False
    pd = draw(G.projects(size_bias=size_bias, **({"max_tags": 4} if fragfail else {}))) if not packing else draw(G.projects(size_bias=["scalar"], max_tags=6, long_names=True))
    p = Project(pd)
    seeds = draw(G.memory_seeds(pd))
    cfg = draw(G.target_cfgs())
    if packing:
        reqs = draw(Q.read_requests(p, min_size=20, max_size=130)) if op == "read" else draw(Q.write_requests(p, min_size=15, max_size=100))
    elif op == "read":
        reqs = draw(Q.read_requests(p, max_size=40 if many else 12))
    else:
        reqs = draw(Q.write_requests(p, max_size=30 if many else 8))
    case = {"pd": pd, "seeds": seeds, "cfg": cfg, "op": op, "reqs": reqs, "double_open": draw(st.integers(0, 5)) == 0,
            "entropy": draw(st.sampled_from(["os", "os", "os", "os", "min", "max"]))}
    if invalid:
        out = []
        forced = []
        for r in reqs:
            if not fragfail and draw(st.integers(0, 3)) == 0:
                bad = draw(Q.invalidate(p, r, op))
                out.append(bad if bad is not None else r)
            else:
                out.append(r)
        if fragfail:
            status = draw(st.sampled_from([0x02, 0x04, 0x05, 0x10, 0x20, 0xFF]))
            forced.append({"when": {"nth": draw(st.integers(0, 9))}, "status": status, "ext": []})
        elif encap_refusal:
            # one connected frame of the call is answered with a header-only encapsulation error (mostly "invalid session handle")
            forced.append({"when": {"unitdata_after_open": draw(st.integers(0, 6)), "packet": True}, "status": draw(st.sampled_from([0x64, 0x64, 0x64, 0x65, 0x03])), "ext": []})
        elif draw(st.integers(0, 5)) == 0:
            # the controller refuses the n-th tag service it receives (may be one fragment of a fragmented transfer)
            status = draw(st.sampled_from([0x02, 0x04, 0x05, 0x10, 0x20, 0xFF]))
            forced.append({"when": {"nth": draw(st.one_of(st.integers(0, 4), st.integers(0, 16)))}, "status": status, "ext": []})
        elif draw(st.integers(0, 9)) == 0:
            # one connected frame of the call is refused at the encapsulation layer (header-only reply with an error status);
            # the index counts SendUnitData frames from the open of the connection, so it is drawn after the upload's frames
            forced.append({"when": {"unitdata_after_open": draw(st.integers(0, 6)), "packet": True}, "status": draw(st.sampled_from([0x02, 0x03, 0x64, 0x65, 0x69, 0x1234])), "ext": []})
        elif draw(st.integers(0, 7)) == 0:
            # the controller refuses a whole Multiple Service Packet (e.g. 0x11 "reply data too large"), once or every time
            status = draw(st.one_of(st.sampled_from([0x11, 0x11, 0x1E, 0x13, 0x15, 0x08, 0x02]), st.integers(1, 0x2C).filter(lambda x: x != 6)))
            forced.append({"when": {"service": 0x0A, "packet": True}, "status": status, "ext": [], "once": draw(st.booleans())})
        elif draw(st.integers(0, 3)) == 0:
            t = draw(st.sampled_from(pd["tags"]))
            status = draw(st.sampled_from([0x04, 0x05, 0x08, 0x0F, 0x10, 0x13, 0x20, 0x26, 0x77, 0xFF]))
            ext = draw(st.sampled_from([[], [0x2105], [0x2107], [0x0000, 0x0001]]))
            forced.append({"when": {"tag": t["name"]}, "status": status, "ext": ext})
            out = [dict(r, invalid="forced") if (r["tag"] == t["name"] and not r.get("invalid")) else r for r in out]
        case["forced"] = forced
        reqs = out
    if fragfail:
        # put whole-array transfers of the large arrays in front: these are the ones that go out in fragments
        from ..project import ATOMIC
        arrs = [t for t in pd["tags"] if t["dims"] and t["type"] in ATOMIC and t["type"] != "DWORD" and p.tag_size(t) > 480]
        for t in (draw(st.permutations(arrs))[:draw(st.integers(1, 2))] if arrs else []):
            r = {"scope": t.get("scope"), "tag": t["name"], "idx": None, "path": [], "bit": None, "count": p.n_elements(t), "invalid": None}
            if op == "write":
                v0, v1 = draw(Q.value_for(p, t["type"], allow_long=False)), draw(Q.value_for(p, t["type"], allow_long=False))
                r["value"] = [v0 if k % 3 else v1 for k in range(r["count"])]
            reqs.insert(0, r)
    if chunked:
        # one large array moved in consecutive chunks, each of them larger than a packet: the same tag several times in one call, with
        # and without a start index (request paths of different length), every chunk a fragmented transfer of its own
        from ..project import ATOMIC
        conn = 4000 if cfg["fo_policy"] == "large" else 500
        arrs = [t for t in pd["tags"] if len(t["dims"]) == 1 and t["type"] in ATOMIC and t["type"] not in ("DWORD", "BOOL") and p.tag_size(t) > 2 * conn + 64]
        if arrs:
            t = draw(st.sampled_from(arrs))
            total, es = p.n_elements(t), p.elem_size(t["type"])
            kmin = conn // es + 2
            k = draw(st.one_of(st.integers(kmin, total // 2), st.sampled_from([kmin, total // 2])))
            starts = list(range(0, total - k + 1, k))[:3]
            chunks = []
            for j, s0 in enumerate(starts):
                r = {"scope": t.get("scope"), "tag": t["name"], "idx": [s0] if (s0 or draw(st.booleans())) else None, "path": [], "bit": None, "count": k, "invalid": None}
                if op == "write":
                    v0, v1 = draw(Q.value_for(p, t["type"], allow_long=False)), draw(Q.value_for(p, t["type"], allow_long=False))
                    r["value"] = [v0 if (i + j) % 3 else v1 for i in range(k)]
                chunks.append(r)
            reqs = chunks + reqs[:3]
    if op == "write":
        reqs = S.dedupe_overlaps(p, reqs)
    case["reqs"] = reqs
    return case


def sample_of(case):
    return {"tags": [f"{t['name']}:{t['type']}{t['dims']}" for t in case["pd"]["tags"]][:6],
            "requests": [Q.render(r) for r in case["reqs"]][:8],
            "cfg": {k: case["cfg"][k] for k in ("fo_policy", "read_cap", "page_size")}, "fw": case["cfg"]["identity"]["major"]}


def nontrivial(run, case):
    if run.classes & {"multi-packet-split", "fragmented-read", "fragmented-write"}:
        return True
    return any(not k.endswith(".atomic") or k.startswith(("read.member", "write.member")) for k in run.classes if k.startswith(("read.", "write.")))


def check_case(case):
    run = S.run_case(case)
    return run.of(*PROPS), nontrivial(run, case), sorted(run.classes)


def plan(tier):
    n = 16 if tier == "quick" else 64
    per = 190 if tier == "quick" else 2400
    return [{"part": "read", "examples": per} for _ in range(n)] + [{"part": "read", "packing": True, "examples": per // 6} for _ in range(4)]


def run_job(ctx, job):
    hyp_search(ctx, "case", cases("read", packing=job.get("packing", False)), check_case, job["examples"], sample_of=sample_of)


def replay(ctx, kind, case):
    return check_case(case)[0]
