"""C04 - Connected requests fit the connection; large data is tiled by fragments."""
from hypothesis import strategies as st

from .. import scenario as S
from ..runner import Disc, hyp_search
from . import c01

PID = "C04"
LEVEL = "exploration"
EXHAUSTIVE = False
TECHNIQUE = ("exhaustive sweep of every data size in +-48-byte windows around both connection sizes (x element type, name length, addressing, "
             "scope, read/write, position in the call) plus Hypothesis scenarios biased to window sizes and arbitrary reply capacities; "
             "oracle = size/offset invariants audited inside the reference target + end-to-end value check")
RULE = ("sweep case = (connection 500|4000, element type SINT/INT/DINT/LINT/custom string/small UDT, data size S in [conn-48, conn+48] and a "
        "coarse grid up to 3 x conn, tag-name length, symbolic / 8-bit / 16-bit instance addressing, program scope, read|write, shape alone / "
        "first / last / middle / between two near-window requests); random case = C01/C02 generator with window-biased tag sizes and freely "
        "drawn reply capacity; non-trivial = data size within 48 bytes of a connection size or larger than it; distinct = hash of the case")
LEVEL_TEXT = ("The window around each connection size is enumerated completely for the listed shapes (exhaustive sub-domain), everything "
              "else is generated; the invariants (no connected data item larger than the granted size, no solicited reply larger than it, "
              "fragment offsets contiguous from 0 to the value's size, follow-up read offset == bytes received) are audited inside the target.")
ASSUMPTIONS = c01.ASSUMPTIONS + [
    "connection size = length of the connected data item including its 2-byte sequence count (CIP Vol 1 3-5.5.1.1)",
    "a plain Read Tag returns everything that fits; only Read Tag Fragmented replies are shortened by the drawn reply capacity",
]
FLOORS = {"quick": {"sweep": 5000, "fragmented-read": 1000, "fragmented-write": 1000, "random": 1000, "chunked-transfer": 80},
          "thorough": {"sweep": 90000, "random": 20000}}

ELEMS = [("SINT", 1), ("INT", 2), ("DINT", 4), ("LINT", 8), ("STR", 8), ("UDT", 12)]
UDTS = [
    {"name": "ASCIISTRING82", "tid": 0xFCE, "handle": 0x0FCE, "size": 88, "string": 82, "predefined": True, "name_has_semicolon": True,
     "members": [{"name": "LEN", "kind": "atomic", "type": "DINT", "array": 0, "offset": 0, "hidden": False},
                 {"name": "DATA", "kind": "atomic", "type": "SINT", "array": 82, "offset": 4, "hidden": False}]},
    {"name": "STR", "tid": 0x2A1, "handle": 0x51A7, "size": 8, "string": 4, "predefined": False, "name_has_semicolon": True,
     "members": [{"name": "LEN", "kind": "atomic", "type": "DINT", "array": 0, "offset": 0, "hidden": False},
                 {"name": "DATA", "kind": "atomic", "type": "SINT", "array": 4, "offset": 4, "hidden": False}]},
    {"name": "UDT", "tid": 0x2A2, "handle": 0xBEE5, "size": 12, "string": None, "predefined": False, "name_has_semicolon": True,
     "members": [{"name": "a", "kind": "atomic", "type": "DINT", "array": 0, "offset": 0, "hidden": False},
                 {"name": "ZZZZZZZZZZUDT4", "kind": "atomic", "type": "SINT", "array": 0, "offset": 4, "hidden": True},
                 {"name": "f", "kind": "bit", "type": "BOOL", "array": 0, "offset": 4, "bit": 3, "hidden": False},
                 {"name": "w", "kind": "atomic", "type": "INT", "array": 2, "offset": 6, "hidden": False}]},
]
NAME40 = "W2345678901234567890123456789012345678_x"


def sweep_sizes(conn, tier):
    win = list(range(conn - 48, conn + 49))
    grid = [conn + 100, conn + 101, 2 * conn - 7, 2 * conn, 2 * conn + 9, 3 * conn - 1, 3 * conn + 5, conn // 2, 64]
    if tier == "quick":
        win = [s for s in win if s % 4 == 0 or abs(s - conn) <= 12]
        grid = grid[:4]
    return win + grid


def sweep_cases(tier):
    """deterministic enumeration (the exhaustive part)"""
    name_lens = [1, 2, 7, 8, 39, 40] if tier == "thorough" else [2, 39]
    shapes = ["alone", "first", "last", "middle", "between"]
    for conn in (500, 4000):
        for ename, es in ELEMS:
            for size in sweep_sizes(conn, tier):
                if size % es or size <= 0:
                    continue
                n = size // es
                for nl in name_lens:
                    for addr in (["sym", "inst8", "inst16"] if tier == "thorough" else ["sym", "inst16"]):
                        for scope in ([None, "Prg"] if tier == "thorough" else [None]):
                            if scope and addr != "sym":
                                continue
                            for op in ("read", "write"):
                                for shape in shapes:
                                    yield {"conn": conn, "elem": ename, "n": n, "nl": nl, "addr": addr, "scope": scope, "op": op, "shape": shape}


def build_sweep_case(c):
    conn = c["conn"]
    name = NAME40[:c["nl"]]
    inst = {"sym": 7, "inst8": 7, "inst16": 300}[c["addr"]]
    fw = 20 if c["addr"] == "sym" else 32
    tags = [{"name": name, "scope": c["scope"], "type": c["elem"], "dims": [c["n"]], "instance": inst, "access": 0, "alias": False},
            {"name": "s1", "scope": None, "type": "DINT", "dims": [], "instance": 1000, "access": 0, "alias": False},
            {"name": "s2", "scope": None, "type": "INT", "dims": [3], "instance": 1001, "access": 0, "alias": False},
            {"name": "near1", "scope": None, "type": "SINT", "dims": [conn - 20], "instance": 1002, "access": 0, "alias": False},
            {"name": "near2", "scope": None, "type": "DINT", "dims": [(conn - 12) // 4], "instance": 1003, "access": 0, "alias": False}]
    pd = {"udts": UDTS, "tags": tags, "programs": [{"name": "Prg", "instance": 2000, "routines": []}] if c["scope"] else [], "extras": []}
    seeds = {S.mkey(t): bytes([17 + i, 3, 250 - i, 91, 7]) for i, t in enumerate(tags)}
    cfg = {"identity": {"major": fw, "product_name": "1756-L83E/B"}, "fo_policy": "large" if conn == 4000 else "std",
           "page_size": 480, "tmpl_frag": 480, "read_cap": None, "expected_route": b"\x01\x00"}
    main = {"scope": c["scope"], "tag": name, "idx": None, "path": [], "bit": None, "count": c["n"], "invalid": None}
    small1 = {"scope": None, "tag": "s1", "idx": None, "path": [], "bit": None, "count": None, "invalid": None}
    small2 = {"scope": None, "tag": "s2", "idx": None, "path": [], "bit": None, "count": 3, "invalid": None}
    near1 = {"scope": None, "tag": "near1", "idx": None, "path": [], "bit": None, "count": conn - 20, "invalid": None}
    near2 = {"scope": None, "tag": "near2", "idx": None, "path": [], "bit": None, "count": (conn - 12) // 4, "invalid": None}
    reqs = {"alone": [main], "first": [main, small1], "last": [small1, main], "middle": [small1, main, small2],
            "between": [near1, main, near2]}[c["shape"]]
    reqs = [dict(r) for r in reqs]
    if c["op"] == "write":
        for r in reqs:
            r["value"] = value_for(r, c)
    return {"pd": pd, "seeds": seeds, "cfg": cfg, "op": c["op"], "reqs": reqs}


def value_for(r, c):
    tag = r["tag"]
    n = r["count"] or 1
    if tag == "s1":
        return -123456
    if tag == "s2":
        return [1, -2, 3]
    if tag.startswith("near"):
        return [(k * 7 + 1) % 100 for k in range(n)]
    e = c["elem"]
    if e == "STR":
        return ["ab%d" % (k % 10) for k in range(n)]
    if e == "UDT":
        return [{"a": k - 5, "f": bool(k % 2), "w": [k % 100, -(k % 50)]} for k in range(n)]
    return [(k * 13 + 5) % 120 for k in range(n)]


def check_built(case, tag):
    run = S.run_case(case, want_readback=False)
    discs = run.of("C04")
    discs += [Disc("e2e." + d.bucket, d.detail) for d in run.of("C01", "C02")]
    return discs, run


def plan(tier):
    cases = list(sweep_cases(tier))
    k = 64 if tier == "quick" else 256
    jobs = [{"part": "sweep", "lo": i, "step": k} for i in range(k)]
    n = 16 if tier == "quick" else 64
    per = 70 if tier == "quick" else 700
    for i in range(n):
        jobs.append({"part": "random", "op": "read" if i % 2 else "write", "examples": per})
    for i in range(6):
        jobs.append({"part": "random", "op": "read" if i % 2 else "write", "packing": True, "examples": per // 3})
    for i in range(4 if tier == "quick" else 16):
        jobs.append({"part": "random", "op": "read" if i % 4 == 3 else "write", "chunked": True, "examples": per // 2})
    return jobs


def run_job(ctx, job):
    if job["part"] == "sweep":
        cases = list(sweep_cases(ctx.tier))
        for c in cases[job["lo"]::job["step"]]:
            case = build_sweep_case(c)
            discs, run = check_built(case, c)
            ctx.case(("sweep",) + tuple(sorted(c.items(), key=str)), True, ["sweep"] + sorted(run.classes & {"fragmented-read", "fragmented-write", "multi-packet-split", "multi-service"}),
                     sample=c)
            for d in discs:
                ctx.violation(d, "sweep", c)
        ctx.exhaustive_parts.append("every data size in [conn-48, conn+48] for conn in {500, 4000} x listed shapes" if ctx.tier == "thorough"
                                    else "window sizes (every 4th, all within +-12) x listed shapes")
        return

    def check_case(case):
        run = S.run_case(case, want_readback=False)
        discs = run.of("C04")
        p = run.p
        conn = 4000 if case["cfg"]["fo_policy"] == "large" else 500
        nt = any(abs(p.tag_size(t) - c_) <= 48 or p.tag_size(t) > c_ for t in case["pd"]["tags"] for c_ in (conn,))
        big = {}
        for r in case["reqs"]:
            t = p.tags.get((r.get("scope"), r["tag"]))
            if t is not None and not r.get("invalid") and not r.get("path") and (r.get("count") or 1) * p.elem_size(t["type"]) > conn:
                big[(r.get("scope"), r["tag"])] = big.get((r.get("scope"), r["tag"]), 0) + 1
        extra = ["chunked-transfer"] if any(v >= 2 for v in big.values()) else []
        return discs, nt, ["random"] + sorted(run.classes) + extra

    hyp_search(ctx, "case", c01.cases(job["op"], many=True, size_bias=["window", "window", "huge", "medium", "small", "scalar"], packing=job.get("packing", False),
                                      chunked=job.get("chunked", False)),
               check_case, job["examples"], sample_of=c01.sample_of)


def replay(ctx, kind, case):
    if kind == "sweep":
        return check_built(build_sweep_case(case), case)[0]
    run = S.run_case(case, want_readback=False)
    return run.of("C04")
