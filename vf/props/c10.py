"""C10 - Connection lifecycle is safe under any call history and failure point."""
from hypothesis import strategies as st

from .. import scenario as S
from ..project import Project
from ..rawsock import SocketShim, StepBudgetExceeded, install_shim, uninstall_shim
from ..refplc import RefPLC, RefTarget
from ..refslc import RefSLC
from ..runner import Disc, hyp_search

PID = "C10"
LEVEL = "fault_enumeration"
TECHNIQUE = ("Hypothesis-generated call histories (model-based: closed / healthy / broken) for CIPDriver, LogixDriver and SLCDriver over a scripted raw "
             "socket, each re-run with a transport fault injected at every send/recv position; oracle = the reference target's session and "
             "connection tables, exception types, Forward-Open order and size, and model values after re-open")
RULE = ("history = up to 12 calls from {open, close, read, write, generic_message connected / unconnected, with-block with or without an exception "
        "raised inside} on one driver object x target policy {large Forward Open ok, large refused / standard ok, all refused, session refused, "
        "forward close refused} x TCP chunking; for every explored fault-free history one execution per transport operation index k with the k-th "
        "send failing (broken pipe / returns 0 / timeout) or the k-th recv failing (timeout / reset / peer close); non-trivial = >= 2 lifecycle calls and "
        "(a fault or a refusing policy); distinct = hash of (history, policy, fault)")
LEVEL_TEXT = ("All single-fault positions of each explored history are enumerated (every send and recv the history performs), with the real Socket "
              "loops inside the tested stack; after every call the target's session/connection tables, driver.connected and the exception type are "
              "checked, and a re-open after close must work and read back the target's memory.")
ASSUMPTIONS = [
    "a transport fault kills the TCP stream: later operations on that socket fail and the target drops the client's session and connections",
    "every single-fault position of each history; double faults are sampled (4 pairs per history in quick, all first positions x 3 second positions in thorough), not enumerated",
    "the with-block's own exception (raised by the harness inside the block) must propagate unchanged",
]
FLOORS = {"quick": {"fault-runs": 4000, "histories": 150, "policy.refusing": 30, "reopen-checked": 300, "double-fault-both-fired": 200},
          "thorough": {"fault-runs": 300000, "histories": 4000}}

PROJECT = {"udts": [], "programs": [], "extras": [], "tags": [
    {"name": "d", "scope": None, "type": "DINT", "dims": [], "instance": 3, "access": 0, "alias": False},
    {"name": "arr", "scope": None, "type": "INT", "dims": [5], "instance": 4, "access": 0, "alias": False},
    {"name": "big", "scope": None, "type": "SINT", "dims": [600], "instance": 5, "access": 0, "alias": False}]}
GENERIC = {(0x0E, 1, 1, 1): (0, [], b"\x2a\x00")}
READS = ["d", "arr{3}", "big{600}"]


class Boom(Exception):
    """raised by the harness inside a with-block"""


def make_target(kind, policy, entropy="os"):
    cfg = {  # with pinned entropy every open reuses the same connection serial / originator serial: not the library's doing
           "allow_duplicate_triple": entropy not in (None, "os"),"generic": dict(GENERIC), "expected_route": b"\x01\x00" if kind != "cip" else b"", "fo_policy": policy.get("fo", "large"),
           "session_policy": policy.get("session", "ok"), "fc_policy": policy.get("fc", "ok"), "session_handle": policy.get("handle", 0x5EED0001),
           "session_refuse_handle": policy.get("refuse_handle", 0), "session_refuse_status": policy.get("refuse_status", 1),
           "lenient_session": policy.get("lenient", False), "fo_refuse": tuple(policy.get("fo_refuse", (0x01, [0x0109]))),
           # connections opened by Forward Open live until Forward Close (or a time-out): un-registering the session does not free them
           "unregister_keeps_connections": True,
           "conn_ids": policy.get("conn_ids", [0xC0DE0001, 0xC0DE0002, 0xC0DE0003])}
    if policy.get("fw") is not None:
        # what the controller reports about itself must not change the Forward Open order / sizes
        cfg["identity"] = {"major": policy["fw"], "minor": 11, "product_name": policy.get("product", "1756-L83E/B")}
    if kind == "logix":
        mem = {"/d": (123456789).to_bytes(4, "little"), "/arr": bytes(range(10)), "/big": bytes((i * 3) & 0xFF for i in range(600))}
        return RefPLC(PROJECT, mem, cfg)
    if kind == "slc":
        return RefSLC({(0x89, 7): bytearray((i * 5) & 0xFF for i in range(520))}, cfg)
    return RefTarget(cfg)


def make_driver(kind):
    from pycomm3 import CIPDriver, LogixDriver, SLCDriver
    return {"cip": CIPDriver, "logix": LogixDriver, "slc": SLCDriver}[kind]("10.9.8.7")


def run_history(case, fault=None):
    from .. import harness
    with harness.entropy(case.get("entropy")):
        return _run_history(case, fault)


def _run_history(case, fault=None):
    """-> (discs, info)"""
    from pycomm3.exceptions import PycommError
    kind = case["driver"]
    tgt = make_target(kind, case["policy"], case.get("entropy"))
    shim = SocketShim(target=tgt, chunks=case["chunks"], fault=fault, budget=400_000)
    install_shim(shim)
    discs = []
    info = {"reopen": 0}
    label = ("fault2" if isinstance(fault, list) else "fault") if fault else "nofault"
    state = {"s": "closed", "ever_faulted": False, "seen": 0}
    drv = make_driver(kind)
    healthy_policy = case["policy"].get("session", "ok") == "ok" and case["policy"].get("fo", "large") != "none"

    def do(op):
        """one public call; returns ('ok', value) | ('exc', PycommError) ; foreign exceptions are findings"""
        name = op["op"]
        if kind == "cip" and name in ("read", "write"):   # the base driver has no tag services
            name = "gconn" if name == "read" else "gunconn"
            op = {"op": name}
        fired_before = shim.faults_fired
        try:
            if name == "open":
                r = drv.open()
            elif name == "close":
                r = drv.close()
            elif name == "read":
                r = drv.read(READS[op["i"] % len(READS)]) if kind == "logix" else drv.read("N7:%d" % (op["i"] % 50))
            elif name == "write":
                if kind == "logix":
                    r = drv.write("d", op["v"]) if op["i"] % 2 == 0 else drv.write(("arr{2}", [op["v"] % 1000, 7]))
                else:
                    r = drv.write(("N7:%d" % (op["i"] % 50), op["v"] % 30000))
            elif name == "gconn":
                r = drv.generic_message(service=0x0E, class_code=1, instance=1, attribute=1, connected=True)
            elif name == "gunconn":
                r = drv.generic_message(service=0x0E, class_code=1, instance=1, attribute=1, connected=False)
            else:
                raise KeyError(name)
            out = ("ok", r)
        except PycommError as e:
            out = ("exc", e)
        except StepBudgetExceeded:
            discs.append(Disc(f"{label}.hang.{name}", f"{name}: step budget exceeded (non-terminating send/receive loop)"))
            raise
        except Boom:
            raise
        except Exception as e:
            if S.where(e) == "harness":
                raise
            discs.append(Disc(f"{label}.foreign.{type(e).__name__}.{name}.{S.where(e)}", f"{name} raised {e!r}; fault={fault}"[:400]))
            out = ("exc", e)
        fault_in_call = shim.faults_fired > fired_before
        after(op, out, fault_in_call)
        return out

    def after(op, out, fault_in_call):
        name = op["op"]
        # S1: audits of the target
        for prop, code, detail in tgt.audits:
            if prop == "C10":
                discs.append(Disc(f"{label}.audit.{code}", f"after {name}: {detail}"))
        tgt.audits[:] = [a for a in tgt.audits if a[0] != "C10"]
        if tgt.fo_attempts and tgt.fo_attempts[0][0] != "large" and not info.get("fo_order_reported"):
            info["fo_order_reported"] = True
            discs.append(Disc(f"{label}.fo-order", f"first Forward Open of this driver was {tgt.fo_attempts[0]}"))
        new_fault = shim.faults_fired > state["seen"]     # also a fault that fired outside do(), e.g. while a with-block was entered
        state["seen"] = shim.faults_fired
        if new_fault:
            state["ever_faulted"] = True
        fault_in_call = fault_in_call or new_fault
        if fault_in_call and state["s"] != "closed":
            state["s"] = "broken"
        if name == "close":
            if drv.connected:
                discs.append(Disc(f"{label}.close.still-connected", "driver.connected is True after close()"))
            if not fault_in_call and state["s"] == "healthy" and case["policy"].get("fc", "ok") == "ok":
                if tgt.connections:
                    discs.append(Disc(f"{label}.close.connection-left", f"target still holds connection(s) {[hex(c) for c in tgt.connections]} after a clean close"))
                if getattr(tgt, "session_at_tcp_close", False):
                    discs.append(Disc(f"{label}.close.session-left", "TCP connection closed while the session was still registered (no UnRegisterSession)"))
            tgt.session_at_tcp_close = False
            state["s"] = "closed"
            return
        if name == "open":
            if state["s"] == "closed":
                if out[0] == "ok" and out[1] and not fault_in_call and case["policy"].get("session", "ok") == "ok":
                    state["s"] = "healthy"
                    if state["ever_faulted"] or info.get("closed_once"):
                        info["reopen"] += 1
                elif out[0] == "exc" and not fault_in_call and case["policy"].get("session", "ok") == "ok" and \
                        (kind != "logix" or case["policy"].get("fo", "large") != "none"):
                    discs.append(Disc(f"{label}.open.fails", f"open() on a reachable target raised {out[1]!r} <- {out[1].__cause__!r}"[:400]))
                elif out[0] == "ok" and not fault_in_call:
                    state["s"] = "open-nosession"
                else:
                    state["s"] = "broken"
            return
        # data operations
        if state["s"] == "healthy" and not fault_in_call and (healthy_policy or name == "gunconn"):
            if out[0] == "exc":
                discs.append(Disc(f"{label}.{name}.fails-when-healthy", f"{name} raised {out[1]!r} <- {out[1].__cause__!r} on a healthy connection"[:400]))
                return
            tag = out[1]
            if not tag:
                discs.append(Disc(f"{label}.{name}.falsy-when-healthy", f"{name}: {tag!r}"[:300]))
                return
            if name == "read":
                if kind == "logix":
                    p = Project(PROJECT)
                    req = {"d": {"tag": "d"}, "arr{3}": {"tag": "arr", "count": 3}, "big{600}": {"tag": "big", "count": 600}}[READS[op["i"] % len(READS)]]
                    want, _ = S.expected_read(p, tgt.memory, dict({"scope": None, "idx": None, "path": [], "bit": None, "count": None}, **req))
                else:
                    i = op["i"] % 50
                    want = int.from_bytes(tgt.tables[(0x89, 7)][2 * i:2 * i + 2], "little", signed=True)
                if tag.value != want:
                    discs.append(Disc(f"{label}.read.value", f"{tag!r}, target holds {str(want)[:80]}"[:300]))
            elif name in ("gconn", "gunconn") and tag.value != b"\x2a\x00":
                discs.append(Disc(f"{label}.{name}.value", repr(tag)[:200]))

    def run_ops(ops):
        for op in ops:
            if op["op"] == "with":
                try:
                    entered = False
                    with drv:
                        entered = True
                        after({"op": "open"}, ("ok", True), shim.fault_fired and state["s"] != "healthy" and False)
                        run_ops(op["body"])
                        if op["raise"]:
                            raise Boom()
                    if op["raise"]:
                        discs.append(Disc(f"{label}.with.swallowed", "an exception raised inside the with-block did not propagate"))
                    after({"op": "close"}, ("ok", None), False)
                except Boom:
                    if not op["raise"]:
                        raise
                    after({"op": "close"}, ("ok", None), False)
                except PycommError as e:
                    # open failed in __enter__ or close failed in __exit__
                    if drv.connected and entered:
                        discs.append(Disc(f"{label}.with.still-connected", f"connected after the with-block ended with {e!r}"))
                    state["s"] = "closed" if entered and not drv.connected else "broken"   # __exit__ (close) only runs once the block was entered
                except StepBudgetExceeded:
                    raise
                except Exception as e:
                    if S.where(e) == "harness":
                        raise
                    discs.append(Disc(f"{label}.with.foreign.{type(e).__name__}", repr(e)[:300]))
            else:
                do(op)
                if op["op"] == "close":
                    info["closed_once"] = True

    try:
        run_ops(case["ops"])
        # S4: close, re-open and read back on a reachable target
        do({"op": "close"})
        info["closed_once"] = True
        if case["policy"].get("session", "ok") == "ok":
            out = do({"op": "open"})
            if state["s"] == "healthy" and kind != "cip" and healthy_policy:
                do({"op": "read", "i": 0})
                do({"op": "read", "i": 2})
            elif state["s"] == "healthy":
                do({"op": "gunconn"})
            do({"op": "close"})
    except StepBudgetExceeded:
        pass
    finally:
        uninstall_shim()
    info["audits_c11"] = [(code, detail) for prop, code, detail in tgt.audits if prop == "C11"]
    info["frames"] = len(tgt.frames)
    if case["policy"].get("session", "ok") == "refuse" and (tgt.fo_attempts or any(e["transport"] == "connected" for e in tgt.log)):
        discs.append(Disc(f"{label}.traffic-after-refused-session", f"session registration was refused, yet the driver sent Forward Open / connected requests: {tgt.fo_attempts[:2]}"))
    info["ops"] = shim.ops
    info["op_kinds"] = "".join(shim.op_kinds)
    info["fault_fired"] = shim.fault_fired
    info["faults_fired"] = shim.faults_fired
    return discs, info


def check_case(ctx, case):
    """fault-free run, then one run per transport operation index"""
    discs, info = run_history(case, None)
    cls = {"histories", "driver." + case["driver"]}
    if case["policy"].get("fo", "large") != "large" or case["policy"].get("session", "ok") != "ok" or case["policy"].get("fc", "ok") != "ok":
        cls.add("policy.refusing")
    if info["reopen"]:
        cls.add("reopen-checked")
    n = info["ops"]
    ctx.bulk(0, [], {"transport-ops": n})
    if discs:
        return discs, True, sorted(cls)
    kinds_send = ["pipe", "zero", "timeout"]
    kinds_recv = ["timeout", "reset", "close"]
    stride = case.get("stride", 1)
    for k in range(case.get("phase", 0) % stride, n, stride):
        variants = range(3) if ctx.tier == "thorough" else [(k + case.get("rot", 0)) % 3]
        for v in variants:
            fault = {"at": k, "send": kinds_send[v], "recv": kinds_recv[v]}
            d, inf = run_history(case, fault)
            ctx.bulk(1, [hash((ctx.job_index, ctx.evaluations, k, v)) & 0xFFFFFFFFFFFF], {"fault-runs": 1, "fault-fired": int(inf["fault_fired"]), "reopen-checked": inf["reopen"]})
            if d:
                case2 = dict(case, fault=fault)
                return [Disc(x.bucket, x.detail + f" [fault {fault} of {n} ops]") for x in d], True, sorted(cls | {"with-fault"})
    # double faults: a second fault somewhere in what the driver does after the first one (the recovery path: close, re-open, retry)
    pairs = [tuple(x) for x in case.get("pairs", [])] if n else []
    if ctx.tier == "thorough" and pairs:
        pairs = [(k1, pairs[j][1] + 7 * k1, (k1 + pairs[j][2]) % 3, pairs[j][3]) for k1 in range(n) for j in range(3)]
    for a, b, v1, v2 in pairs:
        k1 = a % n
        f1 = {"at": k1, "send": kinds_send[v1], "recv": kinds_recv[v1]}
        n1 = run_history(case, f1)[1]["ops"]
        if n1 <= k1 + 1:
            continue
        k2 = k1 + 1 + b % (n1 - k1 - 1)
        fault = [f1, {"at": k2, "send": kinds_send[v2], "recv": kinds_recv[v2]}]
        d, inf = run_history(case, fault)
        ctx.bulk(1, [hash((ctx.job_index, ctx.evaluations, k1, k2, v1, v2)) & 0xFFFFFFFFFFFF], {"double-fault-runs": 1, "double-fault-both-fired": int(inf["faults_fired"] == 2),
                                                                                                  "reopen-checked": inf["reopen"]})
        if d:
            return [Disc(x.bucket, x.detail + f" [faults {fault} of {n} ops]") for x in d], True, sorted(cls | {"with-fault"})
    return [], ("policy.refusing" in cls or n > 0) and len([o for o in case["ops"] if o["op"] in ("open", "close", "with")]) >= 1, sorted(cls)


OPS = ["open", "close", "read", "write", "gconn", "gunconn"]


@st.composite
def op_lists(draw, depth=0, maxlen=8):
    n = draw(st.integers(1, maxlen))
    out = []
    for _ in range(n):
        k = draw(st.sampled_from(OPS + (["with"] if depth == 0 else [])))
        if k == "with":
            out.append({"op": "with", "body": draw(op_lists(depth=1, maxlen=4)), "raise": draw(st.booleans())})
        elif k in ("read", "write"):
            out.append({"op": k, "i": draw(st.integers(0, 5)), "v": draw(st.integers(0, 10 ** 6))})
        else:
            out.append({"op": k})
    return out


@st.composite
def cases(draw):
    kind = draw(st.sampled_from(["cip", "logix", "logix", "slc"]))
    ops = draw(op_lists())
    if draw(st.integers(0, 3)) > 0 and ops[0]["op"] not in ("open", "with"):
        ops.insert(0, {"op": "open"})
    if kind == "cip":
        ops = [o for o in ops if o["op"] not in ("read", "write")] or [{"op": "open"}]
    policy = draw(st.sampled_from([{}, {}, {"fo": "std"}, {"fo": "std"}, {"fo": "none"}, {"session": "refuse"}, {"fc": "refuse"}, {"fo": "std", "fc": "refuse"},
                                   {"session": "refuse", "refuse_handle": 0x1234, "refuse_status": 0x69}, {"session": "refuse", "refuse_handle": 0xFFFFFFFF}, {"session": "refuse", "refuse_handle": 0x4321, "lenient": True},
                                   {"session": "refuse", "lenient": True}]))
    policy = dict(policy, handle=draw(st.sampled_from([1, 0x5EED0001, 0xFFFFFFFF])))
    if draw(st.booleans()):
        policy["fw"] = draw(st.sampled_from([12, 16, 17, 18, 19, 20, 21, 24, 32, 35]))
        if draw(st.integers(0, 4)) == 0:
            policy["product"] = "2080-LC50-48QWB"
    if draw(st.integers(0, 3)) == 0:
        policy["conn_ids"] = draw(st.sampled_from([[0, 1, 2], [0xFFFFFFFF, 0, 7], [1, 1, 1]]))
    if policy.get("fo") in ("std", "none"):
        from ..refplc import CM_EXT_CODES
        policy["fo_refuse"] = draw(st.one_of(st.sampled_from(CM_EXT_CODES).map(lambda c: [0x01, [c]]), st.sampled_from([[0x08, []], [0x05, []], [0x02, []], [0x01, []]]),
                                             st.integers(0, 0xFFFF).map(lambda c: [0x01, [c]])))
    chunks = draw(st.sampled_from([[1 << 20], [1 << 20], [1, 2, 3, 500], [7], [3, 1 << 20], [24, 1, 1 << 20]]))
    return {"driver": kind, "ops": ops, "policy": policy, "chunks": chunks, "rot": draw(st.integers(0, 2)), "stride": 1, "phase": 0,
            "entropy": draw(st.sampled_from(["os", "os", "os", "min", "max"])),
            "pairs": draw(st.lists(st.tuples(st.integers(0, 9999), st.integers(0, 9999), st.integers(0, 2), st.integers(0, 2)), min_size=4, max_size=4))}


def sample_of(c):
    def r(o):
        return o["op"] if o["op"] != "with" else "with(" + ",".join(r(x) for x in o["body"]) + (",raise" if o["raise"] else "") + ")"
    return {"driver": c["driver"], "ops": [r(o) for o in c["ops"]], "policy": c["policy"], "chunks": c["chunks"]}


def plan(tier):
    n = 16 if tier == "quick" else 64
    per = 10 if tier == "quick" else 80
    return [{"part": "hist", "examples": per} for _ in range(n)] + [{"part": "refusals", "driver": k} for k in ("cip", "logix", "slc")]


def refusal_cases(kind):
    """whatever status the target refuses the extended Forward Open with, the driver falls back to the standard one"""
    from ..refplc import CM_EXT_CODES
    refs = [[0x01, [c]] for c in CM_EXT_CODES] + [[0x01, []], [0x02, []], [0x05, []], [0x08, []], [0x09, []], [0x13, []], [0x26, []], [0xFF, [0x2105]], [0x01, [0x0109, 0x01F4]]]
    # every general status byte, tabled in the library's status texts or not
    refs += [[g, []] for g in range(1, 256) if [g, []] not in refs and (kind == "cip" or g % 5 == 0 or g in (0x17, 0x18, 0x19, 0x20, 0x21, 0x23, 0x24, 0x2A))]
    for r in refs:
        yield {"driver": kind, "ops": [{"op": "open"}, {"op": "read", "i": 0, "v": 1}, {"op": "gconn"}, {"op": "close"}, {"op": "open"}, {"op": "write", "i": 0, "v": 5}],
               "policy": {"fo": "std", "fo_refuse": r}, "chunks": [1 << 20], "rot": 0, "stride": 1, "phase": 0, "entropy": "os"}


def run_job(ctx, job):
    if job["part"] == "refusals":
        for case in refusal_cases(job["driver"]):
            discs, info = run_history(case, None)
            ctx.case(("refusal", job["driver"], str(case["policy"]["fo_refuse"])), True, ["histories", "policy.refusing", "refusal-sweep"])
            for d in discs:
                ctx.violation(d, "hist", case)
        ctx.exhaustive_parts.append("every tabled connection-manager refusal status for the extended Forward Open")
        return
    hyp_search(ctx, "hist", cases(), lambda c: check_case(ctx, c), job["examples"], sample_of=sample_of, shrink_budget_s=15 if ctx.tier == "quick" else 120)


def replay(ctx, kind, case):
    if case.get("fault"):
        return run_history(case, case["fault"])[0]
    return check_case(ctx, case)[0]
