"""C17 - Connected messages carry fresh sequence counts."""
from hypothesis import strategies as st

from .. import gen_project as G
from .. import gen_requests as Q
from .. import harness
from .. import scenario as S
from ..project import Project
from ..refplc import RefPLC, RefTarget
from ..runner import Disc, hyp_search

PID = "C17"
LEVEL = "exploration"
TECHNIQUE = ("Hypothesis-generated histories of connected operations with the 16-bit counter phase drawn so that the wrap-around lands inside every "
             "kind of multi-packet operation, plus uninterrupted runs of > 65535 requests; oracle = the reference target's per-connection "
             "duplicate detection (sequence count equal to the previous one)")
RULE = ("history = 5-30 connected operations (generic messages, single/multi reads and writes expanding into multi-service, fragmented-read, "
        "fragmented-write and read-modify-write packets, tag-list uploads) on one connection with the counter advanced to 65535-offset before the "
        "history (offset drawn so the wrap falls inside it); long runs = 70000 / 140000 consecutive requests at several phases; non-trivial = the "
        "history crosses the wrap or contains a fragmented / multi-packet operation; distinct = hash of the history")
LEVEL_TEXT = ("The target compares every connected data item's sequence count with the previous one on that connection (what a real target's "
              "duplicate detection does); wrap-around is forced into the explored histories and complete 16-bit cycles are run end to end.")
ASSUMPTIONS = [
    "the counter phase is set by consuming values from driver._sequence (the only private touch); nothing else about the numbering is asserted",
    "gaps in the numbering are legal (sub-requests of a multi-service packet consume values that are never sent)",
]
FLOORS = {"quick": {"wrap-crossed": 150, "fragmented": 100, "long-run": 1}, "thorough": {"wrap-crossed": 5000, "long-run": 8}}


def check_history(case, strict=False):
    with harness.entropy(case.get("entropy")):
        return _check_history(case, strict)


def _check_history(case, strict):
    from pycomm3.exceptions import PycommError
    discs, cls = [], set()
    p, mem, tgt = S.build_target(case)
    plc = S.open_driver(S.Run(), tgt, case)
    if plc is None:
        # the upload itself may already have tripped over repeated sequence counts (the target replays its previous reply)
        harness.uninstall()
        return [Disc(code, detail + " (during open / tag upload)") for prop, code, detail in tgt.audits if prop == "C17"], False, ["open-failed"]
    try:
        # make sure the connection exists, then set the phase
        def sync():
            try:
                plc.generic_message(service=0x0E, class_code=1, instance=1, attribute=1, connected=True)
            except PycommError as e:
                discs.append(Disc(f"strict.generic.raises.{type(e).__name__}", f"connected generic message raised {e!r} <- {e.__cause__!r} near the counter wrap"[:300]))
        sync()
        conn = next(iter(tgt.connections.values()), None)
        if conn is None:
            return discs, False, ["no-connection"]
        start_n = conn["n"]
        cur = next(plc._sequence)
        target_val = (65535 - case["offset"]) % 65536 or 1
        steps = (target_val - cur) % 65535
        for _ in range(steps):
            next(plc._sequence)
        # re-synchronise: the fast-forward consumed values without sending anything, so send one message with the
        # new phase before the history starts (otherwise the first message could equal the pre-fast-forward one)
        sync()
        tgt.audits[:] = [a for a in tgt.audits if a[0] != "C17"]
        seqs = []
        if case.get("drops") and not strict:
            # replies to some connected messages get lost (time-out, connection still usable): whatever the driver does next,
            # the following message needs a fresh count
            harness.CURRENT["drop"] = {harness.CURRENT["unit_sends"] + k for k in case["drops"]}
            harness.CURRENT["raw_timeout"] = bool(case.get("raw_timeout"))
            cls.add("reply-dropped")
        for op in case["ops"]:
            if "reqs" in op:
                # the step budget only tells a terminating call from an endless one: it grows with the data the call legitimately moves
                # (a structure element of several kilobytes read from a target that returns 20 bytes per fragment needs thousands of frames)
                harness.CURRENT["budget"] += S._traffic_bound(p, op["reqs"])
            try:
                if op["op"] == "generic":
                    plc.generic_message(service=0x0E, class_code=1, instance=1, attribute=op["attr"], connected=True)
                elif op["op"] == "read":
                    plc.read(*[S.render(r) for r in op["reqs"]])
                elif op["op"] == "write":
                    pairs = [(S.render(r), r["value"]) for r in op["reqs"]]
                    plc.write(*pairs) if len(pairs) > 1 else plc.write(pairs[0][0], pairs[0][1])
                elif op["op"] == "upload":
                    plc.get_tag_list(program="*")
                elif op["op"] == "reopen":
                    plc.open()      # open() on an open driver is valid; the connection stays, so the count must go on
            except PycommError as e:
                if strict and op["op"] in ("read", "write"):
                    # read / write answer with Tags; near the counter wrap they must not start raising
                    discs.append(Disc(f"strict.{op['op']}.raises.{type(e).__name__}", f"{op['op']} raised {e!r} <- {e.__cause__!r} (counter phase offset {case['offset']})"[:400]))
            except harness.StepBudgetExceeded:
                discs.append(Disc("nonterminating", f"{op['op']} kept sending requests (a replayed reply after a repeated sequence count never ends the transfer)"))
                harness.CURRENT["budget"] = 10_000
                break
        last = conn["last_seq"]
        first = target_val
        n_msgs = conn["n"] - start_n
        if n_msgs and last is not None and (last < first or case["offset"] < n_msgs * 3):
            pass
        if last is not None and last < 30000 <= first:
            cls.add("wrap-crossed")
        svcs = {e["service"] for e in tgt.log}
        if 0x52 in svcs or 0x53 in svcs:
            cls.add("fragmented")
        if 0x0A in svcs:
            cls.add("multi")
        if 0x4E in svcs:
            cls.add("rmw")
        for prop, code, detail in tgt.audits:
            if prop == "C17":
                discs.append(Disc(code, detail))
        try:
            plc.close()
        except PycommError:
            pass
    finally:
        harness.uninstall()
    return discs, bool(cls & {"wrap-crossed", "fragmented", "multi"}), sorted(cls)


def one_call_wrap(kind, n):
    """a single call that needs about 65535 counts of its own: whatever the driver numbers while it builds the requests of a call,
    every message it sends must differ from the one sent just before it"""
    from pycomm3.exceptions import PycommError
    from ..refplc import RefPLC
    pd = {"udts": [], "programs": [], "extras": [], "tags": [
        {"name": "x", "scope": None, "type": "DINT", "dims": [], "instance": 3, "access": 0, "alias": False},
        {"name": "y", "scope": None, "type": "DINT", "dims": [], "instance": 4, "access": 0, "alias": False}]}
    cfg = {}
    if kind == "many-fragmented":
        # every request of the call needs a fragmented read (two fragments on a 500-byte connection)
        pd["tags"].append({"name": "big", "scope": None, "type": "DINT", "dims": [200], "instance": 5, "access": 0, "alias": False})
        cfg = {"fo_policy": "std"}
    tgt = RefPLC(pd, {"/x": bytes(4), "/y": bytes(4), "/big": bytes(range(200)) * 4}, cfg)
    harness.install(tgt, budget=400_000)
    discs = []
    try:
        plc = harness.open_logix(tgt)
        harness.CURRENT["budget"] = 400_000
        tgt.audits[:] = [a for a in tgt.audits if a[0] != "C17"]
        try:
            if kind == "many-fragmented":
                plc.read("x")
                res = plc.read("x", *(["big{200}"] * n))
                bad = [t for t in res if not t]
                if bad:
                    discs.append(Disc("one-call.failed-requests", f"{len(bad)} of {len(res)} reads of one call failed, e.g. {bad[0]!r}"[:300]))
            elif kind == "write-then-read":
                plc.write(("x", 7))
                res = plc.read(*(["x", "y"] * (n // 2)))
                bad = [t for t in res if not t]
                if bad:
                    discs.append(Disc("one-call.failed-requests", f"{len(bad)} of {len(res)} reads of one call failed, e.g. {bad[0]!r}"[:300]))
            else:
                res = plc.write(("x.0", True), *[("y", i & 0xFFFF) for i in range(n)])
                if tgt.memory["/x"][0] & 1 != 1:
                    discs.append(Disc("one-call.bit-write-lost", f"x.0 reported {res[0]!r} but the controller's bit is still 0"[:300]))
        except PycommError as e:
            discs.append(Disc(f"one-call.raises.{type(e).__name__}", repr(e)[:300]))
        discs += [Disc("one-call." + code, f"{detail} ({kind}, {n} requests in one call)") for prop, code, detail in tgt.audits if prop == "C17"]
        plc.close()
    except harness.StepBudgetExceeded:
        discs.append(Disc("one-call.nonterminating", kind))
    finally:
        harness.uninstall()
    return discs[:3]


def long_run(n, phase):
    """n consecutive connected generic messages starting at counter phase `phase`"""
    from pycomm3 import CIPDriver
    tgt = RefTarget({"generic": {(0x0E, 1, 1, 1): (0, [], b"\x01\x00")}})
    harness.install(tgt, budget=n + phase + 10_000)
    try:
        d = CIPDriver("10.0.0.1")
        d.open()
        d.generic_message(service=0x0E, class_code=1, instance=1, attribute=1, connected=True)
        for _ in range(phase):
            next(d._sequence)
        d.generic_message(service=0x0E, class_code=1, instance=1, attribute=1, connected=True)
        tgt.audits[:] = [a for a in tgt.audits if a[0] != "C17"]
        bad = 0
        for i in range(n):
            t = d.generic_message(service=0x0E, class_code=1, instance=1, attribute=1, connected=True)
            if not t or t.value != b"\x01\x00":
                bad += 1
        d.close()
    finally:
        harness.uninstall()
    discs = [Disc(code, f"{detail} (long run n={n} phase={phase})") for prop, code, detail in tgt.audits if prop == "C17"]
    if bad:
        discs.append(Disc("long-run.failed-requests", f"{bad} of {n} requests failed"))
    return discs


@st.composite
def histories(draw):
    pd = draw(G.projects(max_tags=6, size_bias=["scalar", "small", "medium", "window", "huge"]))
    p = Project(pd)
    seeds = draw(G.memory_seeds(pd))
    cfg = draw(G.target_cfgs(allow_micro800=False))
    cfg["page_size"] = draw(st.sampled_from([30, 100, 480]))
    if draw(st.integers(0, 3)) == 0:
        # the target refuses a kind of request outright (whole Multiple Service Packets, e.g. 0x11 "reply data too large"), once or every time:
        # whatever the driver does to recover, the next message needs a fresh count
        cfg["forced"] = [{"when": {"service": draw(st.sampled_from([0x0A, 0x0A, 0x0A, 0x4C, 0x52, 0x4D, 0x53, 0x4E, 0x55, 0x03])), "transport": "connected"},
                          "status": draw(st.one_of(st.sampled_from([0x11, 0x11, 0x1E, 0x13, 0x15, 0x08, 0x02]), st.integers(1, 0x2C).filter(lambda x: x != 6))), "ext": [],
                          "once": draw(st.booleans())}]
    ops = []
    for _ in range(draw(st.integers(3, 14))):
        k = draw(st.sampled_from(["generic", "generic", "read", "read", "write", "write", "upload", "reopen", "again", "again"]))
        if k == "again":
            # polling: the very same call once more (same tag list, same values), whatever the driver kept from the first time
            if ops:
                ops.append(dict(ops[-1]))
            continue
        if k == "generic":
            ops.append({"op": k, "attr": draw(st.integers(1, 7))})
        elif k == "read":
            ops.append({"op": k, "reqs": draw(Q.read_requests(p, max_size=10))})
        elif k == "write":
            ops.append({"op": k, "reqs": S.dedupe_overlaps(p, draw(Q.write_requests(p, max_size=6)))})
        else:
            ops.append({"op": k})
    return {"pd": pd, "seeds": seeds, "cfg": cfg, "ops": ops, "offset": draw(st.one_of(st.integers(0, 60), st.integers(0, 400))),
            "raw_timeout": draw(st.booleans()),
            "drops": draw(st.one_of(st.just([]), st.just([]), st.lists(st.integers(0, 25), min_size=1, max_size=3, unique=True))),
            "entropy": draw(st.sampled_from(["os", "os", "os", "min", "max"]))}


def sample_of(c):
    return {"ops": [o["op"] + (":" + ",".join(S.render(r) for r in o["reqs"][:3]) if "reqs" in o else "") for o in c["ops"]], "offset": c["offset"]}


def plan(tier):
    n = 15 if tier == "quick" else 64
    jobs = [{"part": "hist", "examples": 40 if tier == "quick" else 1500} for _ in range(n)]
    jobs.append({"part": "one-call", "kind": "write-then-read", "n": 65534})
    jobs.append({"part": "one-call", "kind": "many-fragmented", "n": 65535})
    if tier != "quick":
        jobs.append({"part": "one-call", "kind": "bit-write-and-writes", "n": 65272})
        jobs += [{"part": "one-call", "kind": "write-then-read", "n": n} for n in (65270, 65272, 65274, 65532, 65536)]
    if tier == "quick":
        jobs.append({"part": "long", "n": 70000, "phase": 31000})
    else:
        for ph in (0, 1, 9000, 20000, 31000, 45000, 60000, 65000):
            jobs.append({"part": "long", "n": 140000 if ph in (1, 31000) else 70000, "phase": ph})
    return jobs


def run_job(ctx, job):
    if job["part"] == "one-call":
        discs = one_call_wrap(job["kind"], job["n"])
        ctx.bulk(job["n"], [ctx.seed ^ job["n"], hash(job["kind"]) & 0xFFFF], {"one-call-wrap": 1})
        for d in discs:
            ctx.violation(d, "one-call", {"kind": job["kind"], "n": job["n"]})
        return
    if job["part"] == "long":
        discs = long_run(job["n"], job["phase"])
        ctx.bulk(job["n"], [ctx.seed ^ job["phase"], job["n"]], {"long-run": 1, "long-run-requests": job["n"]})
        ctx.sample({"long_run_requests": job["n"], "phase": job["phase"]})
        for d in discs:
            ctx.violation(d, "long", {"n": job["n"], "phase": job["phase"]})
        return
    hyp_search(ctx, "hist", histories(), check_history, job["examples"], sample_of=sample_of)


def replay(ctx, kind, case):
    if kind == "long":
        return long_run(case["n"], case["phase"])
    if kind == "one-call":
        return one_call_wrap(case["kind"], case["n"])
    return check_history(case)[0]
