"""C11 - Every emitted frame is a well-formed EtherNet/IP encapsulation message."""
import struct

from hypothesis import strategies as st

from .. import scenario as S
from ..refplc import RefTarget
from ..runner import Disc, hyp_search
from . import c01

PID = "C11"
LEVEL = "exploration"
TECHNIQUE = ("every frame emitted in Hypothesis-generated read/write/upload/lifecycle/generic/SLC scenarios plus directly constructed request packets "
             "with arbitrary session, connection id, context and payload; oracle = the reference target's strict frame parser")
RULE = ("(i) all frames sent during generated scenarios (session handles and connection ids drawn from the full 32-bit range by the target); "
        "(ii) direct builds of RegisterSession / UnRegisterSession / ListIdentity / SendRRData / SendUnitData packets with arbitrary session id, "
        "connection id, sender context and payload length 0..4000; non-trivial = SendRRData/SendUnitData frame with non-empty CIP payload; "
        "distinct = (command, payload length, item layout, session, connection id)")
LEVEL_TEXT = ("Each frame is checked by an independent strict parser: 24-byte header, length field == bytes that follow, command, granted session "
              "handle, zero status/options, two-item common packet with exact item lengths, connection id and sequence count placement.")
ASSUMPTIONS = ["the strict parser is the one inside vf/refplc.py (RefTarget.handle / _parse_cpf)"]
FLOORS = {"quick": {"direct": 3000, "scenario-frames": 20000}, "thorough": {"direct": 100000, "scenario-frames": 500000}}


def check_direct(c):
    """build one request packet directly and feed it to a pre-registered strict target"""
    from pycomm3.packets import (RegisterSessionRequestPacket, UnRegisterSessionRequestPacket, ListIdentityRequestPacket,
                                 GenericConnectedRequestPacket, GenericUnconnectedRequestPacket)
    kind = c["kind"]
    session, cid, ctx = c["session"], c["cid"], bytes(c["ctx"])
    tgt = RefTarget({"session_handle": session, "conn_ids": [cid]})
    if kind != "register":
        tgt.registered = True
    tgt.connections[cid] = {"size": 1 << 16, "to_id": 0x1234, "triple": (1, 2, 3), "last_seq": None, "last_reply": None, "n": 0, "large": True}
    payload = bytes(c["payload"])
    try:
        if kind == "register":
            pkt, sess = RegisterSessionRequestPacket(b"\x01\x00"), 0
        elif kind == "unregister":
            pkt, sess = UnRegisterSessionRequestPacket(), session
        elif kind == "listidentity":
            pkt, sess = ListIdentityRequestPacket(), session
        elif kind == "rr":
            pkt, sess = GenericUnconnectedRequestPacket(service=c["service"], class_code=c["cls"], instance=c["inst"], request_data=payload), session
        else:
            pkt, sess = GenericConnectedRequestPacket(sequence=c["seq"], service=c["service"], class_code=c["cls"], instance=c["inst"], request_data=payload), session
        frame = pkt.build_request(struct.pack("<I", cid), sess, ctx, 0)
    except Exception as e:
        return [Disc(f"direct.build-raises.{kind}.{type(e).__name__}", f"{c}: {e!r}"[:400])]
    tgt.handle(frame)
    discs = [Disc(f"direct.{code}", f"{kind}: {detail}; frame={frame[:64].hex()}") for prop, code, detail in tgt.audits if prop == "C11"]
    if discs:
        return discs
    hdr = struct.unpack_from("<HHII8sI", frame, 0)
    want_cmd = {"register": 0x65, "unregister": 0x66, "listidentity": 0x63, "rr": 0x6F, "unit": 0x70}[kind]
    if hdr[0] != want_cmd:
        discs.append(Disc("direct.command", f"{kind}: command {hdr[0]:#x}"))
    if hdr[4] != ctx:
        discs.append(Disc("direct.context", f"{kind}: context {hdr[4].hex()} != {ctx.hex()}"))
    if kind in ("rr", "unit"):
        if not tgt.log:
            discs.append(Disc("direct.not-routed", f"{kind}: the strict target did not reach the message router"))
        else:
            e = tgt.log[-1]
            if e["service"] != c["service"] or e["data"] != payload or e["segs"] is None or [(s[0], s[1]) for s in e["segs"]] != [("class", c["cls"]), ("instance", c["inst"])]:
                discs.append(Disc("direct.content", f"{kind}: router saw service {e['service']:#x} segs {e['segs']} data {len(e['data'])} bytes"))
        if kind == "unit":
            data_item = frame[24 + 8 + 8 + 4:]
            if struct.unpack_from("<H", data_item, 0)[0] != c["seq"]:
                discs.append(Disc("direct.sequence", f"connected data does not begin with the sequence count {c['seq']}"))
    return discs


u32 = st.one_of(st.integers(1, 0xFFFFFFFF), st.sampled_from([1, 0xFF, 0x100, 0xFFFF, 0x10000, 0x80000000, 0xFFFFFFFF]))


@st.composite
def direct_cases(draw):
    n = draw(st.one_of(st.integers(0, 40), st.sampled_from([0, 1, 2, 255, 256, 488, 489, 3988, 4000]), st.integers(0, 4000)))
    seed = draw(st.binary(min_size=1, max_size=8))
    return {"kind": draw(st.sampled_from(["register", "unregister", "listidentity", "rr", "rr", "unit", "unit"])),
            "session": draw(u32), "cid": draw(st.one_of(u32, st.just(0))), "ctx": draw(st.binary(min_size=8, max_size=8)),
            "payload": (seed * (n // len(seed) + 1))[:n], "service": draw(st.integers(1, 0x7F)),
            "cls": draw(st.one_of(st.integers(1, 255), st.integers(256, 65535))), "inst": draw(st.one_of(st.integers(0, 255), st.integers(256, 0xFFFFFFFF))),
            "seq": draw(st.integers(0, 65535))}


def frame_classes(ctx, tgt):
    for f in tgt.frames:
        if len(f) >= 24:
            cmd, ln = struct.unpack_from("<HH", f, 0)
            nt = cmd in (0x6F, 0x70) and ln > 16
            ctx.bulk(1, [hash((cmd, ln, f[4:8])) & 0xFFFFFFFFFFFF] if nt else [], {"scenario-frames": 1, "cmd.%#x" % cmd: 1})


def plan(tier):
    jobs = []
    n = 8 if tier == "quick" else 32
    for kind in ("rr", "unit"):
        for lo in range(0, 1600, 400):
            jobs.append({"part": "lengths", "kind": kind, "lo": lo, "hi": lo + 400})
    for i in range(n):
        jobs.append({"part": "direct", "examples": 500 if tier == "quick" else 10000})
        jobs.append({"part": "scenario", "op": ["read", "write"][i % 2], "examples": 60 if tier == "quick" else 1200, "encap_refusal": i % 4 == 3})
        jobs.append({"part": "lifecycle", "examples": 8 if tier == "quick" else 60})
    return jobs


def run_job(ctx, job):
    if job["part"] == "lengths":
        # every payload length 0..1599 for both data-carrying commands (a single bad length cannot hide)
        for n in range(job["lo"], job["hi"]):
            c = {"kind": job["kind"], "session": 0x01020304 + n, "cid": 0xA0B0C0D0 ^ n, "ctx": b"ctx-%04d" % (n % 10000), "payload": bytes((7 * i + n) & 0xFF for i in range(n)),
                 "service": 0x4C, "cls": 0x6B, "inst": 1 + (n % 3) * 300, "seq": (n * 37) & 0xFFFF}
            discs = check_direct(c)
            ctx.case(("len", job["kind"], n), n > 0, ["direct", "direct-length-sweep"])
            for d in discs:
                ctx.violation(d, "direct", c)
        ctx.exhaustive_parts.append("payload lengths 0..1599 of SendRRData / SendUnitData")
        return
    if job["part"] == "direct":
        hyp_search(ctx, "direct", direct_cases(), lambda c: (check_direct(c), c["kind"] in ("rr", "unit") and len(c["payload"]) > 0, ["direct", "direct." + c["kind"]]),
                   job["examples"])
        return

    if job["part"] == "lifecycle":
        from . import c10

        def check_life(case):
            """frames of lifecycle histories (C10 generator), fault-free and with a fault at every transport operation"""
            discs = []
            d0, info = c10.run_history(case, None)
            runs = [(None, info)]
            for k in range(0, info["ops"]):
                v = (k + case.get("rot", 0)) % 3
                fault = {"at": k, "send": ["pipe", "zero", "timeout"][v], "recv": ["timeout", "reset", "close"][v]}
                runs.append((fault, c10.run_history(case, fault)[1]))
            for fault, inf in runs:
                ctx.bulk(inf["frames"], [], {"scenario-frames": inf["frames"], "lifecycle-runs": 1})
                for code, detail in inf["audits_c11"]:
                    discs.append(Disc("lifecycle." + code, f"{detail} [fault {fault}]"))
            ctx.evaluations -= 1
            return discs, True, ["lifecycle"]

        hyp_search(ctx, "lifecycle", c10.cases(), check_life, job["examples"], sample_of=c10.sample_of)
        return

    def check_case(case):
        run = S.run_case(case, want_readback=False)
        frame_classes(ctx, run.tgt)
        ctx.evaluations -= 1  # frames are what is counted here; the scenario itself is not a case
        return run.of("C11"), True, ["scenario"]

    # (with requests that cannot succeed and frames / services the target refuses - among them a connected frame answered with
    # "invalid session handle": whatever the driver does next, its frames carry the handle and connection id it was given last)
    hyp_search(ctx, "scenario", c01.cases(job["op"], many=True, invalid=True, encap_refusal=job.get("encap_refusal", False)), check_case, job["examples"], sample_of=c01.sample_of)


def replay(ctx, kind, case):
    if kind == "direct":
        return check_direct(case)
    if kind == "lifecycle":
        from . import c10
        discs = []
        d0, info = c10.run_history(case, None)
        runs = [(None, info)]
        for k in range(0, info["ops"]):
            v = (k + case.get("rot", 0)) % 3
            fault = {"at": k, "send": ["pipe", "zero", "timeout"][v], "recv": ["timeout", "reset", "close"][v]}
            runs.append((fault, c10.run_history(case, fault)[1]))
        for fault, inf in runs:
            discs += [Disc("lifecycle." + code, f"{detail} [fault {fault}]") for code, detail in inf["audits_c11"]]
        return discs
    run = S.run_case(case, want_readback=False)
    return run.of("C11")
