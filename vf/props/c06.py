"""C06 - Data-type codecs round-trip every value.

Oracles (no reference codec needed here - C07 is the differential one):
  L1 round trip      decode(encode(v)) == v   (REAL to binary32, NaN == NaN, fixed arrays truncate,
                     derived-length arrays: decode(lenType.encode(len(v)) + encode(v)) as documented)
  L2 stream law      decode(BytesIO(wire + junk)) == v, tell() == len(wire), junk untouched; the same at a non-zero stream position
  L3 composition     Struct(A, B..).encode([a, b..]) == A.encode(a) + B.encode(b) ..;  T[n].encode(vs) == concat
  L4 dict == sequence  encoding of a structure from a dict equals encoding from a positional sequence
"""
import io
import itertools

from hypothesis import strategies as st

from .. import codec_common as C
from .. import refcodec as R
from ..refcodec import T
from ..runner import Disc, hyp_search

PID = "C06"
LEVEL = "exploration"
TECHNIQUE = "Hypothesis type-grammar x value generation with round-trip / stream / composition / dict-vs-sequence laws; exhaustive over all 8- and 16-bit values"
RULE = ("(type descriptor, value) pairs drawn from the type grammar (elementary, strings, bit strings, n_bytes, fixed / "
        "derived-length / unbounded arrays, nested Struct, IP/Revision/identity/fixed-capacity strings, depth <= 3) plus "
        "exhaustive values of every 8/16-bit type; non-trivial = type is not a bare integer type, or the value is a "
        "boundary value (min, max, -1, 0, single bit); distinct = hash of (type, value)")
LEVEL_TEXT = ("Generated-input search over the exported type constructors with four algebraic laws as oracle; every 8-bit "
              "and 16-bit value is enumerated exhaustively, wider and composite types are sampled (boundary + random).")
ASSUMPTIONS = [
    "strings are drawn from the repertoire whose characters occupy exactly the type's character width (Latin-1 for 1-byte types, BMP for STRING2, ASCII for 1-byte STRINGN)",
    "derived-length arrays round-trip only at top level because encode (as documented) emits no length prefix",
    "STRINGN inside structs/arrays uses character size 1 (the only size reachable through Struct/Array.encode)",
]
FLOORS = {"quick": {"struct": 300, "array.fixed": 200, "array.derived": 50, "array.unbound": 30, "string": 200},
          "thorough": {"struct": 3000, "array.fixed": 2000, "array.derived": 500, "array.unbound": 300, "string": 2000}}

SMALL = {"BOOL": None, "SINT": 8, "USINT": 8, "BYTE": 8, "INT": 16, "UINT": 16, "WORD": 16, "DATE": 16, "ITIME": 16, "ENGUNIT": 16}


def has_open_end(t):
    """type whose decode consumes the whole buffer (junk cannot follow)"""
    k = t["k"]
    if k == "nbytes":
        return t["n"] == -1
    if k == "array":
        return t["len"] is None or has_open_end(t["el"])
    if k == "struct":
        return any(has_open_end(mt) for _, mt in t["members"])
    return False


def kind_sig(t):
    if t["k"] == "array":
        ln = t["len"]
        s = "array." + ("fixed" if isinstance(ln, int) else "derived" if isinstance(ln, dict) else "unbound")
        return s + (".bits" if t["el"]["k"] in R.BITS else "")
    return t["k"]


def wire_for(t, v):
    """bytes that decode must accept for value v, built from the library's own encoders (L1)."""
    enc = C.lib_encode(t, C.norm_value_for_lib(t, v))
    if t["k"] == "array" and isinstance(t["len"], dict):
        from pycomm3 import cip
        el = t["el"]
        mult = R.BITS[el["k"]] * 8 if el["k"] in R.BITS else 1
        enc = getattr(cip, t["len"]["lt"]).encode(len(v) // mult) + enc
    return enc


def classes_of(t, out=None):
    out = out if out is not None else set()
    k = t["k"]
    if k == "struct":
        out.add("struct")
        for _, mt in t["members"]:
            classes_of(mt, out)
    elif k == "array":
        ln = t["len"]
        out.add("array.fixed" if isinstance(ln, int) else "array.derived" if isinstance(ln, dict) else "array.unbound")
        if t["el"]["k"] in R.BITS:
            out.add("array.bits")
        classes_of(t["el"], out)
    elif k in R.STR_PREFIX or k in ("STRINGN", "STRINGI", "fixedstr"):
        out.add("string")
    elif k in R.BITS:
        out.add("bits")
    elif k in R.FLOATS:
        out.add("float")
    elif k in R.INTS:
        out.add("int")
    else:
        out.add(k)
    return out


def check_pair(t, v, junk=b"\xa5\x5a\x00"):
    from pycomm3.exceptions import PycommError

    discs = []
    tk = kind_sig(t)
    try:
        expected = C.expected_after_roundtrip(t, v)
        try:
            wire = wire_for(t, v)
        except PycommError as e:
            return [Disc(f"encode.rejects.{tk}", f"encode of in-domain value raised {e!r}: type={t} value={v!r}"[:600])]
        if not isinstance(wire, bytes):      # what decode accepts (bytes or a stream): decode(encode(v)) must work as written
            return [Disc(f"encode.notbytes.{tk}", f"encode returned {type(wire).__name__}, which decode does not accept: type={t}"[:300])]
        wire = bytes(wire)
        # L1
        try:
            got = C.lib_decode(t, wire)
        except PycommError as e:
            return [Disc(f"roundtrip.decode-raises.{tk}", f"decode(encode(v)) raised {e!r}: type={t} value={v!r} wire={wire.hex()}"[:700])]
        if not R.ref_equal(got, expected):
            discs.append(Disc(f"roundtrip.value.{tk}", f"type={t} value={v!r} wire={wire.hex()} decoded={got!r} expected={expected!r}"[:900]))
        elif isinstance(got, (list, dict)):
            # the caller owns the decoded value: changing it must not change what the next decode returns
            R.scramble(got)
            try:
                again = C.lib_decode(t, wire)
                if not R.ref_equal(again, expected):
                    discs.append(Disc(f"aliasing.decode.{tk}", f"type={t} wire={wire.hex()}: after the caller modified the first decoded value, a second decode returns {again!r}, expected {expected!r}"[:900]))
            except PycommError as e:
                discs.append(Disc(f"aliasing.decode-raises.{tk}", f"type={t}: second decode raised {e!r}"))
        # L2
        j = b"" if has_open_end(t) else junk
        s = io.BytesIO(wire + j)
        try:
            got2 = C.build(t).decode(s)
            pos = s.tell()
            if not R.ref_equal(got2, expected):
                discs.append(Disc(f"stream.value.{tk}", f"type={t} value={v!r} decoded-from-stream={got2!r}"[:700]))
            elif pos != len(wire):
                discs.append(Disc(f"stream.position.{tk}", f"type={t} value={v!r}: encoded {len(wire)} bytes, decode consumed {pos}"[:700]))
            elif s.read() != j:
                discs.append(Disc(f"stream.junk.{tk}", "following data was altered"))
        except PycommError as e:
            discs.append(Disc(f"stream.decode-raises.{tk}", f"type={t} value={v!r} raised {e!r}"[:600]))
        # L2b: the value does not start the stream (what precedes it is the bitwise complement, so a read at an absolute position shows)
        prefix = bytes(b ^ 0xFF for b in wire) or b"\xff"
        s = io.BytesIO(prefix + wire + j)
        s.seek(len(prefix))
        try:
            got3 = C.build(t).decode(s)
            pos = s.tell() - len(prefix)
            if not R.ref_equal(got3, expected):
                discs.append(Disc(f"stream.offset.value.{tk}", f"type={t} value={v!r} decoded at stream position {len(prefix)}: {got3!r}"[:700]))
            elif pos != len(wire):
                discs.append(Disc(f"stream.offset.position.{tk}", f"type={t} value={v!r}: encoded {len(wire)} bytes, decode at position {len(prefix)} consumed {pos}"[:700]))
        except PycommError as e:
            discs.append(Disc(f"stream.offset.decode-raises.{tk}", f"type={t} value={v!r} at stream position {len(prefix)} raised {e!r}"[:600]))
        # L3 / L4
        if t["k"] == "struct":
            seq = C.struct_as_sequence(t, v)
            parts = b"".join(bytes(C.lib_encode(mt, C.norm_value_for_lib(mt, x))) for (_, mt), x in zip(t["members"], seq))
            as_seq = bytes(C.build(t).encode([C.norm_value_for_lib(mt, x) for (_, mt), x in zip(t["members"], seq)]))
            if as_seq != parts:
                discs.append(Disc("composition.struct", f"type={t} value={v!r}: {as_seq.hex()} != concat {parts.hex()}"[:700]))
            if as_seq != wire:
                discs.append(Disc("dict-vs-sequence", f"type={t} value={v!r}: dict {wire.hex()} vs sequence {as_seq.hex()}"[:700]))
        if t["k"] == "array" and t["el"]["k"] not in R.BITS:
            vs = v[: t["len"]] if isinstance(t["len"], int) else v
            parts = b"".join(bytes(C.lib_encode(t["el"], C.norm_value_for_lib(t["el"], x))) for x in vs)
            body = bytes(C.lib_encode(t, C.norm_value_for_lib(t, v)))
            if body != parts:
                discs.append(Disc("composition.array", f"type={t} value={v!r}: {body.hex()} != concat {parts.hex()}"[:700]))
    except PycommError as e:
        discs.append(Disc(f"law.raises.{tk}", f"type={t} value={v!r}: {e!r}"[:600]))
    except Exception as e:  # foreign exception from the library on an in-domain value
        import traceback
        tb = traceback.extract_tb(e.__traceback__)
        where = next((f"{f.filename.split('/')[-1]}:{f.name}" for f in reversed(tb) if "/pycomm3/" in f.filename), "harness")
        if where == "harness":
            raise
        discs.append(Disc(f"foreign.{type(e).__name__}.{where}", f"type={t} value={v!r}: {e!r}"[:600]))
    return discs


def sub_pairs(t, v):
    k = t["k"]
    if k == "struct":
        for name, mt in t["members"]:
            yield mt, v["" if name is None else name]
    elif k == "array" and t["el"]["k"] not in R.BITS:
        for x in v:
            yield t["el"], x
    elif k == "STRINGI":
        for s, stn, _, _ in v:
            yield (T(stn) if stn != "STRINGN" else T("STRINGN", cs=1)), s


def check_blamed(t, v):
    """check_pair, but a failure that a component exhibits on its own is attributed to the component
    (root-cause bucketing: one bucket per defective type, not per enclosing shape)."""
    discs = check_pair(t, v)
    if not discs:
        return discs
    for st_, sv in sub_pairs(t, v):
        sub = check_blamed(st_, sv)
        if sub:
            return sub
    return discs


def boundary_value(t, v):
    if t["k"] in R.INTS and isinstance(v, int):
        lo, hi = R.INT_RANGE[t["k"]]
        return v in (lo, hi, -1, 0, 1) or (v > 0 and v & (v - 1) == 0)
    return False


# ------------------------------------------------------------------------------------------------
def plan(tier):
    jobs = []
    for name, bits in SMALL.items():
        if bits in (None, 8):
            jobs.append({"part": "exhaustive", "type": name, "lo": 0, "hi": 2 if bits is None else 256})
        else:
            step = 8192
            for lo in range(0, 65536, step):
                jobs.append({"part": "exhaustive", "type": name, "lo": lo, "hi": lo + step})
    n = 16 if tier == "quick" else 64
    per = 500 if tier == "quick" else 12000
    for i in range(n):
        jobs.append({"part": "gen", "examples": per})
    jobs.append({"part": "ident", "examples": 1500 if tier == "quick" else 40000})
    jobs.append({"part": "strlen"})
    jobs.append({"part": "arrlen"})
    return jobs


def _value_from_index(name, i):
    if name == "BOOL":
        return bool(i)
    if name in R.BITS:
        n = R.BITS[name] * 8
        return [bool(i >> b & 1) for b in range(n)]
    lo, hi = R.INT_RANGE[name]
    return lo + i


def run_job(ctx, job):
    if job["part"] == "exhaustive":
        t = T(job["type"])
        for i in range(job["lo"], job["hi"]):
            v = _value_from_index(job["type"], i)
            discs = check_pair(t, v)
            ctx.case((job["type"], i), True, ["exhaustive." + job["type"]],
                     sample={"type": t, "value": v} if i in (0, 255) else None)
            for d in discs:
                ctx.violation(d, "pair", {"t": t, "v": v})
        ctx.exhaustive_parts.append("all values of " + job["type"])
    elif job["part"] == "strlen":
        for t, v in C.boundary_string_cases():
            discs = check_pair(t, v)
            if t["k"] != "STRINGN" or t.get("cs", 1) == 1:
                discs += check_blamed(T("struct", members=[["s", t], ["tail", T("UINT")]]), {"s": v, "tail": 7})
            ctx.case(("strlen", t["k"], t.get("cs"), len(v)), True, ["string", "string-length-boundary"])
            for d in discs:
                ctx.violation(d, "pair", {"t": t, "v": v})
    elif job["part"] == "arrlen":
        for t, v in C.boundary_array_cases():
            discs = check_pair(t, v)
            ctx.case(("arrlen", str(t["len"]), t["el"]["k"], len(v)), True, ["array", "array-length-boundary"])
            for d in discs:
                ctx.violation(Disc(d.bucket, d.detail[:300] + f" ... [{len(v)} elements]"), "pair", {"t": t, "v": v})
        ctx.exhaustive_parts.append("array length-prefix boundaries")
    elif job["part"] == "gen":
        @st.composite
        def cases(draw):
            if draw(st.integers(0, 5)) == 0:
                # Logix structure layouts (members at template offsets, BOOLs packed into hidden or visible hosts), also as array elements
                t = draw(C.structtags())
                v = draw(C.structtag_values(t))
                if draw(st.booleans()):
                    n = draw(st.integers(2, 3))
                    t, v = T("array", len=n, el=t, via="factory"), [v] + [draw(C.structtag_values(t)) for _ in range(n - 1)]
                return {"t": t, "v": v}
            t = draw(C.types(depth=draw(st.integers(0, 2))))
            v = draw(C.values(t))
            return {"t": t, "v": v}

        def check_case(case):
            t, v = case["t"], case["v"]
            return check_blamed(t, v), C.nontrivial_type(t) or boundary_value(t, v), classes_of(t)

        hyp_search(ctx, "pair", cases(), check_case, job["examples"])
    else:
        _ident_part(ctx, job)


def _ident_part(ctx, job):
    """Encoding an identity and decoding it again is the identity (for identities with known names)."""
    def check_case(case):
        return check_ident(case), True, ["identity"]

    # every registered vendor / product-type id once (names with unusual spelling are single points in a 16-bit space)
    from .c16 import tables
    vendors, ptypes = tables()
    base = {"product_code": 7, "major": 3, "minor": 9, "status": b"\x12\x34", "serial": 0x0000BEEF, "product_name": "Dev"}
    for idn in [dict(base, vendor=v, product_type=12) for v in sorted(vendors)] + [dict(base, vendor=1, product_type=t) for t in sorted(ptypes)]:
        ctx.case(("ident-tabled", idn["vendor"], idn["product_type"]), True, ["identity", "identity-tabled-id"])
        for d in check_ident(idn):
            ctx.violation(d, "ident", idn)
    ctx.exhaustive_parts.append("identity round trip for every registered vendor id and product-type id")
    hyp_search(ctx, "ident", C.values(T("modid")), check_case, job["examples"])


def check_ident(idn):
    from pycomm3 import ModuleIdentityObject
    from pycomm3.exceptions import PycommError

    raw = R.encode_identity(idn)
    try:
        d = ModuleIdentityObject.decode(raw)
    except PycommError as e:
        return [Disc("ident.decode-raises", f"{idn!r}: {e!r}")]
    if d.get("vendor") == "UNKNOWN" or d.get("product_type") == "UNKNOWN":
        return []  # unknown names cannot be encoded back (not in the statement's domain)
    try:
        again = ModuleIdentityObject.decode(ModuleIdentityObject.encode(d))
    except PycommError as e:
        return [Disc("ident.reencode-raises", f"{d!r}: {e!r}")]
    if again != d:
        return [Disc("ident.roundtrip", f"{d!r} -> {again!r}")]
    # the identity object is a structure: a positional sequence in member order encodes like the dict
    order = ["vendor", "product_type", "product_code", "revision", "status", "serial", "product_name"]
    seq = [d[k] for k in order]
    if idn["serial"] % 2:
        seq[3] = [d["revision"]["major"], d["revision"]["minor"]]
    try:
        as_seq = bytes(ModuleIdentityObject.encode(tuple(seq) if idn["serial"] % 3 == 0 else seq))
    except PycommError as e:
        return [Disc("ident.dict-vs-sequence.raises", f"positional {seq!r}: {e!r}"[:500])]
    if as_seq != bytes(ModuleIdentityObject.encode(d)):
        return [Disc("ident.dict-vs-sequence", f"{d!r}: sequence gives {as_seq.hex()}")]
    return []


def replay(ctx, kind, case):
    if kind == "pair":
        return check_blamed(case["t"], case["v"])
    if kind == "ident":
        return check_ident(case)
    raise ValueError(kind)
