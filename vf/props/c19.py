"""C19 - Code tables are total, bidirectional, case-insensitive lookups.

Generator: every EnumMap subclass reachable after importing pycomm3 (members derived from the class
__dict__, not from the library's own bookkeeping) x every member x casing variants (fixed classes +
Hypothesis-drawn casings); every code for the reverse direction; non-members for the membership law;
every status byte 0..255; every (status, extended status) pair of the extended table.
Oracle: lookup laws (see check_* below).
"""
import importlib

from ..runner import Disc, h64

PID = "C19"
LEVEL = "exploration"
EXHAUSTIVE = True
TECHNIQUE = "exhaustive enumeration of all tables/members/casing classes + Hypothesis-drawn casings and non-members against lookup laws"
RULE = ("every EnumMap table x member x casing variant (lower, UPPER, Title, swapcase, alternating, "
        "Hypothesis-drawn) + reverse lookups of every code + status bytes 0..255 + every tabled "
        "(status, ext) pair + drawn non-members; non-trivial = everything except the lookup of a "
        "lower-case name in lower case; distinct = (table, key spelling / code / status, law group)")
ASSUMPTIONS = [
    "tables are discovered by walking EnumMap.__subclasses__() after importing pycomm3 and pycomm3.packets.*",
    "the status text tables (SERVICE_STATUS, EXTEND_CODES) are used as data; their wording is not judged",
]
FLOORS = {"quick": {"name-lookup": 1000, "reverse-lookup": 150, "status": 256, "ext-status": 50},
          "thorough": {"name-lookup": 1000, "reverse-lookup": 150, "status": 256, "ext-status": 50}}

_SENT = object()


def tables():
    import pycomm3  # noqa
    import pycomm3.packets.ethernetip  # noqa
    from pycomm3.map import EnumMap

    out = []

    def walk(c):
        for s in c.__subclasses__():
            out.append(s)
            walk(s)

    walk(EnumMap)
    out.sort(key=lambda c: (c.__module__, c.__name__))
    return out


def members_of(tab):
    return {k: v for k, v in vars(tab).items()
            if not k.startswith("_") and not isinstance(v, (classmethod, staticmethod, property))}


def casings(name):
    alt = "".join(c.upper() if i % 2 else c.lower() for i, c in enumerate(name))
    alt2 = "".join(c.lower() if i % 2 else c.upper() for i, c in enumerate(name))
    vs = [name, name.lower(), name.upper(), name.title(), name.swapcase(), alt, alt2,
          name[:1].upper() + name[1:], name[:-1] + name[-1:].upper()]
    seen, out = set(), []
    for v in vs:
        if v not in seen:
            seen.add(v)
            out.append(v)
    return out


def _eq(a, b):
    return a is b or a == b


def check_name(tab, name, spelled, order="item-first"):
    """M[spelled] == M.get(spelled) == getattr(M, name); spelled in M.  `order` decides which kind of lookup sees a spelling
    first (a lookup must not depend on what was looked up before)."""
    discs = []
    tn = tab.__name__
    want = getattr(tab, name)
    if order != "item-first":
        try:
            first = tab.get(spelled, _SENT) if order == "get-default-first" else (spelled in tab)
        except Exception as e:
            return [Disc(f"name.{order}.exc.{tn}", f"{tn}: {order} lookup of {spelled!r} raised {e!r}")]
        if order == "get-default-first" and (first is _SENT or not _eq(first, want)):
            return [Disc(f"name.get-default.fresh.{tn}", f"{tn}.get({spelled!r}, default) on a spelling not looked up before returned {'the default' if first is _SENT else repr(first)}, member {name} = {want!r}")]
        if order == "contains-first" and not first:
            return [Disc(f"name.contains.fresh.{tn}", f"{spelled!r} in {tn} is False on a spelling not looked up before")]
    try:
        got = tab[spelled]
    except KeyError:
        return [Disc(f"name.getitem.keyerror.{tn}", f"{tn}[{spelled!r}] raised KeyError (member {name})")]
    except Exception as e:
        return [Disc(f"name.getitem.exc.{tn}", f"{tn}[{spelled!r}] raised {e!r}")]
    if not _eq(got, want):
        discs.append(Disc(f"name.getitem.value.{tn}", f"{tn}[{spelled!r}] = {got!r}, attribute {name} = {want!r}"))
    try:
        got2 = tab.get(spelled, _SENT)
    except Exception as e:
        return discs + [Disc(f"name.get.exc.{tn}", f"{tn}.get({spelled!r}) raised {e!r}")]
    if got2 is _SENT or not _eq(got2, want):
        discs.append(Disc(f"name.get.value.{tn}", f"{tn}.get({spelled!r}) = {got2!r}, attribute = {want!r}"))
    try:
        inn = spelled in tab
    except Exception as e:
        return discs + [Disc(f"name.contains.exc.{tn}", f"{spelled!r} in {tn} raised {e!r}")]
    if not inn:
        discs.append(Disc(f"name.contains.{tn}", f"{spelled!r} in {tn} is False but lookup succeeds"))
    return discs


def code_of(tab, value):
    vk = vars(tab).get("_value_key_")
    if vk is not None:
        f = vk.__func__ if isinstance(vk, (staticmethod, classmethod)) else vk
        return f(value)
    return value


def check_reverse(tab, name):
    """code -> a member name that carries that code, by item access and get; membership."""
    tn = tab.__name__
    if not vars(tab).get("_bidirectional_", True):
        return []
    value = getattr(tab, name)
    if tn == "DataTypes":
        code = value.code  # independent of the library's key function
    else:
        code = code_of(tab, value)
    discs = []
    try:
        back = tab[code]
    except Exception as e:
        return [Disc(f"rev.getitem.exc.{tn}", f"{tn}[{code!r}] raised {e!r} (code of member {name})")]
    if not isinstance(back, str):
        return [Disc(f"rev.notname.{tn}", f"{tn}[{code!r}] = {back!r} is not a member name")]
    try:
        val_back = tab[back]
    except Exception as e:
        return [Disc(f"rev.roundtrip.exc.{tn}", f"{tn}[{code!r}] = {back!r} but {tn}[{back!r}] raised {e!r}")]
    carried = val_back.code if tn == "DataTypes" else code_of(tab, val_back)
    if not _eq(carried, code):
        discs.append(Disc(f"rev.carries.{tn}", f"{tn}[{code!r}] = {back!r} which carries {carried!r}"))
    if back.lower() not in {k.lower() for k in members_of(tab)}:
        discs.append(Disc(f"rev.unknownname.{tn}", f"{tn}[{code!r}] = {back!r} is not a member of the table"))
    g = tab.get(code, _SENT)
    if g is _SENT or g != back:
        discs.append(Disc(f"rev.get.{tn}", f"{tn}.get({code!r}) = {g!r} but item access gives {back!r}"))
    try:
        if code not in tab:
            discs.append(Disc(f"rev.contains.{tn}", f"{code!r} in {tn} is False"))
    except Exception as e:
        discs.append(Disc(f"rev.contains.exc.{tn}", f"{code!r} in {tn} raised {e!r}"))
    if vars(tab).get("_return_caps_only_") and back != back.upper():
        discs.append(Disc(f"rev.caps.{tn}", f"{tn}[{code!r}] = {back!r} not upper-case for a caps-only table"))
    if tn == "DataTypes":
        try:
            t = tab.get_type(code)
            if t is None or t.code != code:
                discs.append(Disc("rev.get_type", f"DataTypes.get_type({code!r}) = {t!r}"))
        except Exception as e:
            discs.append(Disc("rev.get_type.exc", f"DataTypes.get_type({code!r}) raised {e!r}"))
    return discs


def check_membership(tab, x):
    """x in M  <=>  M.get(x, sentinel) is not sentinel  <=>  M[x] does not raise KeyError"""
    tn = tab.__name__
    try:
        a = x in tab
        b = tab.get(x, _SENT) is not _SENT
        try:
            tab[x]
            c = True
        except KeyError:
            c = False
    except Exception as e:
        return [Disc(f"member.exc.{tn}", f"membership of {x!r} in {tn} raised {e!r}")]
    if not (a == b == c):
        return [Disc(f"member.inconsistent.{tn}", f"{x!r}: in={a} get={b} getitem={c}")]
    return []


def check_status(s):
    from pycomm3.packets.util import get_service_status
    from pycomm3.cip import SERVICE_STATUS

    try:
        t = get_service_status(s)
    except Exception as e:
        return [Disc("status.exc", f"get_service_status({s}) raised {e!r}")]
    if not isinstance(t, str) or not t.strip():
        return [Disc("status.empty", f"get_service_status({s}) = {t!r}")]
    if s in SERVICE_STATUS:
        if t != SERVICE_STATUS[s]:
            return [Disc("status.tabletext", f"get_service_status({s}) = {t!r} != table {SERVICE_STATUS[s]!r}")]
    elif f"{s:02x}" not in t.lower():
        return [Disc("status.nohex", f"get_service_status({s}) = {t!r} lacks hex code {s:02x}")]
    return []


def check_ext(status, ext, width):
    """get_extended_status names every tabled pair (ext encoded in `width` bytes, 0 = no ext words)."""
    from pycomm3.packets.util import get_extended_status
    from pycomm3.cip import EXTEND_CODES

    text = EXTEND_CODES[status][ext]
    if width == 0:
        msg = bytes([status, 0])
    else:
        msg = bytes([status, width // 2]) + ext.to_bytes(width, "little")
    pre = b"\xee" * 5
    try:
        got = get_extended_status(pre + msg + b"\x99\x99", 5)
    except Exception as e:
        return [Disc("ext.exc", f"get_extended_status(status={status}, ext={ext}, width={width}) raised {e!r}")]
    if not isinstance(got, str) or text not in got:
        return [Disc("ext.text", f"status={status:#x} ext={ext:#x} width={width}: {got!r} lacks {text!r}")]
    return []


def check_from_reply(code):
    from pycomm3.cip import Services

    want = [k for k, v in members_of(Services).items() if v == bytes([code])]
    try:
        got = Services.from_reply(bytes([code | 0x80]))
    except Exception as e:
        return [Disc("from_reply.exc", f"Services.from_reply({code | 0x80:#x}) raised {e!r}")]
    if want:
        if not isinstance(got, str) or got.lower() not in want:
            return [Disc("from_reply.member", f"from_reply({code | 0x80:#x}) = {got!r}, expected one of {want}")]
        if Services[got] != bytes([code]):
            return [Disc("from_reply.code", f"Services[{got!r}] = {Services[got]!r}")]
    elif got is not None:
        return [Disc("from_reply.invented", f"from_reply({code | 0x80:#x}) = {got!r} for an untabled code")]
    return []


# ------------------------------------------------------------------------------------------------
def plan(tier):
    jobs = [{"part": "tables", "table": i} for i in range(len(tables()))]
    jobs.append({"part": "status"})
    n = 4 if tier == "quick" else 16
    for i in range(n):
        jobs.append({"part": "random", "examples": 600 if tier == "quick" else 30000})
    return jobs


def run_job(ctx, job):
    tabs = tables()
    if job["part"] == "tables":
        tab = tabs[job["table"]]
        tn = tab.__name__
        for name in members_of(tab):
            for k, sp in enumerate(casings(name)):
                discs = check_name(tab, name, sp, ["item-first", "get-default-first", "contains-first"][k % 3] if sp != name else "item-first")
                trivial = sp == name == name.lower()
                ctx.case(("name", tn, sp), not trivial, ["name-lookup"],
                         sample={"table": tn, "member": name, "spelled": sp})
                for d in discs:
                    ctx.violation(d, "name", {"table": tn, "member": name, "spelled": sp})
            discs = check_reverse(tab, name)
            ctx.case(("rev", tn, name), True, ["reverse-lookup"], sample={"table": tn, "reverse_of": name})
            for d in discs:
                ctx.violation(d, "reverse", {"table": tn, "member": name})
        ctx.exhaustive_parts.append("tables x members x fixed casing classes")
    elif job["part"] == "status":
        from pycomm3.cip import EXTEND_CODES

        for s in range(256):
            discs = check_status(s)
            ctx.case(("status", s), True, ["status"], sample={"status": s})
            for d in discs:
                ctx.violation(d, "status", {"status": s})
        for status, exts in EXTEND_CODES.items():
            for ext in exts:
                widths = [w for w in (2, 4) if ext < (1 << (8 * w))]
                if ext == 0:
                    widths.append(0)
                for w in widths:
                    discs = check_ext(status, ext, w)
                    ctx.case(("ext", status, ext, w), True, ["ext-status"],
                             sample={"status": status, "ext": ext, "width": w})
                    for d in discs:
                        ctx.violation(d, "ext", {"status": status, "ext": ext, "width": w})
        for code in range(128):
            discs = check_from_reply(code)
            ctx.case(("from_reply", code), True, ["from-reply"])
            for d in discs:
                ctx.violation(d, "from_reply", {"code": code})
        ctx.exhaustive_parts.append("status bytes 0..255; all tabled (status, ext) pairs; reply service codes 0x80..0xFF")
    else:
        _random_part(ctx, job, tabs)


def _random_part(ctx, job, tabs):
    from hypothesis import strategies as st
    from ..runner import hyp_search

    names = [(i, n) for i, t in enumerate(tabs) for n in members_of(t)]

    @st.composite
    def cases(draw):
        kind = draw(st.sampled_from(["casing", "casing", "nonmember"]))
        if kind == "casing":
            ti, name = draw(st.sampled_from(names))
            mask = draw(st.lists(st.booleans(), min_size=len(name), max_size=len(name)))
            sp = "".join(c.upper() if m else c.lower() for c, m in zip(name, mask))
            return {"kind": "casing", "table": tabs[ti].__name__, "member": name, "spelled": sp,
                    "order": draw(st.sampled_from(["item-first", "get-default-first", "contains-first"]))}
        ti = draw(st.integers(0, len(tabs) - 1))
        x = draw(st.one_of(
            st.text(alphabet="abcXYZ_019 ", max_size=12),
            st.sampled_from(names).map(lambda tn: tn[1] + "x"),
            st.sampled_from(names).map(lambda tn: tn[1][:-1]),
            st.integers(-5, 70000),
            st.binary(max_size=3),
        ))
        return {"kind": "nonmember", "table": tabs[ti].__name__, "x": x}

    def check_case(case):
        tab = next(t for t in tabs if t.__name__ == case["table"])
        if case["kind"] == "casing":
            return check_name(tab, case["member"], case["spelled"], case.get("order", "item-first")), True, ["name-lookup", "drawn-casing"]
        return check_membership(tab, case["x"]), True, ["membership"]

    hyp_search(ctx, "random", cases(), check_case, job["examples"])


def replay(ctx, kind, case):
    tabs = {t.__name__: t for t in tables()}
    if kind == "name":
        return check_name(tabs[case["table"]], case["member"], case["spelled"])
    if kind == "reverse":
        return check_reverse(tabs[case["table"]], case["member"])
    if kind == "status":
        return check_status(case["status"])
    if kind == "ext":
        return check_ext(case["status"], case["ext"], case["width"])
    if kind == "from_reply":
        return check_from_reply(case["code"])
    if kind == "random":
        if case["kind"] == "casing":
            return check_name(tabs[case["table"]], case["member"], case["spelled"], case.get("order", "item-first"))
        return check_membership(tabs[case["table"]], case["x"])
    raise ValueError(kind)

LEVEL_TEXT = ("Exhaustive enumeration of the finite domain (every table, member, fixed casing class, code, status byte and "
              "tabled extended status) plus randomly drawn casings and non-members; a violation inside that domain cannot "
              "be missed, so exploration with exhaustive=true is the right level for a finite lookup property.")
