"""C14 - Generic messaging delivers the request verbatim and returns the answer."""
import datetime
import struct

from hypothesis import strategies as st

from .. import harness
from .. import refcodec as R
from .. import refpath as RP
from ..refplc import RefPLC, RefTarget
from ..runner import Disc, hyp_search

PID = "C14"
LEVEL = "exploration"
TECHNIQUE = ("Hypothesis-generated generic_message calls (service, class/instance/attribute as int or bytes, data, mode, route form, data type, "
             "target reply) against the reference target; oracle = the target's message-router log equals the request and the returned Tag equals the reply")
RULE = ("case = (driver path with 0-3 hops, service 0x01-0x7F as int|bytes, class/instance/attribute over 8/16/32-bit ranges as int|1/2/4-byte "
        "bytes, attribute omitted/0/non-zero, request data 0..600 bytes, mode connected | direct UCMM | Unconnected Send, route_path True | False | "
        "string | PortSegment list | encoded bytes, data_type None | elementary | struct | array, reply data and status chosen by the target); "
        "helper cases: get_plc_name / get_plc_info / get_module_info(slot) / set_plc_time+get_plc_time; non-trivial = data non-empty, or a "
        "16/32-bit path value, or Unconnected Send with >= 1 hop; distinct = hash of the case")
LEVEL_TEXT = ("Differential exploration: the reference target logs (transport, service, path segments, data, route) for every routed request and "
              "audits the Unconnected Send wrapper (embedded length, pad byte, route size); the Tag must carry the target's reply unchanged or "
              "decoded by the supplied type (reference codec).")
ASSUMPTIONS = [
    "direct UCMM with a route: the library appends the encoded route after the request data (by design, used for Forward Open); the oracle "
    "expects exactly request_data + encoded route there",
    "status 6 (partial transfer) is not used as a refusal status here (C13 owns the partial-transfer rule)",
    "set_plc_time values are limited to times a Python datetime can represent",
]
FLOORS = {"quick": {"connected": 300, "ucmm": 300, "ucsend": 300, "helper": 300, "refused": 300},
          "thorough": {"connected": 20000, "ucmm": 20000, "ucsend": 20000, "helper": 5000}}

HOSTS = ["10.1.2.3", "192.168.1.10", "plc-7.example"]


def val_of(x):
    return int.from_bytes(x, "little") if isinstance(x, (bytes, bytearray)) else x


def lib_type(dt):
    from pycomm3 import cip
    if dt is None:
        return None
    if dt["k"] == "struct":
        return cip.Struct(*[getattr(cip, m["k"])(n) for n, m in dt["members"]])
    if dt["k"] == "array":
        return cip.Array(dt["len"], getattr(cip, dt["el"]["k"]))
    return getattr(cip, dt["k"])


def route_arg(c):
    from pycomm3.cip import PortSegment
    form = c["route_form"]
    hops = [tuple(h) for h in c["route_hops"]]
    if form == "true":
        return True
    if form == "false":
        return False
    if form == "string":
        # a route string takes the separators of the path grammar (/ \ ,), also mixed
        seps = c.get("route_seps") or "/"
        parts = [str(x) for p, l in hops for x in (p, l)]
        return "".join(x + (seps[i % len(seps)] if i < len(parts) - 1 else "") for i, x in enumerate(parts))
    if form == "empty-list":
        return []
    if form == "list":
        return [PortSegment(p, l) for p, l in hops]
    enc = RP.enc_route([(RP.PORT_NAMES.get(p, p) if isinstance(p, str) else p, l) for p, l in hops])
    return bytes([len(enc) // 2, 0]) + enc


def ref_route(hops):
    return RP.enc_route([(RP.PORT_NAMES.get(p, p) if isinstance(p, str) else p, l) for p, l in hops])


def check_generic(c):
    from pycomm3 import CIPDriver
    from pycomm3.exceptions import PycommError
    discs = []
    path_hops = [tuple(h) for h in c["path_hops"]]
    pstr = c["host"] + "".join(f"/{p}/{l}" for p, l in path_hops)
    svc, cls, inst, attr = c["service"], c["cls"], c["inst"], c["attr"]
    key = (val_of(svc), val_of(cls), val_of(inst), val_of(attr) if attr not in (None, b"") else None)
    reply = (c["status"], list(c["ext"]), bytes(c["reply"]))
    # request data of any length: whether it fits the connection is the caller's business here (C04 covers the library's own requests)
    tgt = RefTarget({"enforce_size": False, "generic": {key: reply}, "expected_route": ref_route(path_hops), "ucsend_any_route": True,
                     "session_handle": c["session"], "conn_ids": [c["cid"]], "fo_policy": c["fo_policy"]})
    harness.install(tgt)
    try:
        drv = CIPDriver(pstr)
        drv.open()
        kw = dict(service=svc, class_code=cls, instance=inst, request_data=bytes(c["data"]), data_type=lib_type(c["data_type"]),
                  connected=c["mode"] == "connected", unconnected_send=c["mode"] == "ucsend", name="probe")
        if attr is not None:
            kw["attribute"] = attr
        if c["mode"] != "connected" and c["route_form"] != "default":
            kw["route_path"] = route_arg(c)
        n0 = len(tgt.log)
        try:
            tag = drv.generic_message(**kw)
        except PycommError as e:
            return [Disc(f"generic.raises.{type(e).__name__}.{c['mode']}", f"{kw}: {e!r} <- {e.__cause__!r}"[:600])]
        except Exception as e:
            return [Disc(f"generic.foreign.{type(e).__name__}.{c['mode']}", f"{kw}: {e!r}"[:600])]
        entries = tgt.log[n0:]
        mine = [e for e in entries if not (e["segs"] and e["segs"][0][:2] == ("class", 6) and e["service"] in (0x54, 0x5B))]
        for prop, code, detail in tgt.audits:
            if prop in ("C14", "C09"):
                discs.append(Disc(f"audit.{code}", f"{detail} [{c['mode']}]"))
        want_segs = [("class", val_of(cls)), ("instance", val_of(inst))]
        if attr not in (None, b""):       # attribute 0 is an attribute; only the default (empty bytes) means "none"
            want_segs.append(("attribute", val_of(attr)))
        data = bytes(c["data"])
        if c["mode"] == "ucsend":
            outer = [e for e in mine if e["service"] == 0x52 and "ucsend" in e]
            inner = [e for e in mine if e["transport"] == "ucsend"]
            if len(outer) != 1 or len(inner) != 1:
                return discs + [Disc("ucsend.not-delivered", f"router log: {[(e['transport'], hex(e['service'])) for e in mine]}")]
            e = inner[0]
            u = outer[0]["ucsend"]
            want_route = {"true": ref_route(path_hops), "default": ref_route(path_hops), "false": b"", "empty-list": b""}.get(c["route_form"])
            if want_route is None:
                want_route = ref_route([tuple(h) for h in c["route_hops"]])
            if u["route"] != want_route:
                discs.append(Disc(f"ucsend.route.{c['route_form']}", f"route {u['route'].hex()} != intended {want_route.hex()}"))
            if outer[0]["transport"] != "ucmm":
                discs.append(Disc("ucsend.transport", outer[0]["transport"]))
        else:
            if len(mine) != 1:
                return discs + [Disc(f"{c['mode']}.not-delivered", f"router log: {[(e['transport'], hex(e['service'])) for e in mine]}")]
            e = mine[0]
            if e["transport"] != c["mode"]:
                discs.append(Disc("transport", f"sent over {e['transport']}, requested {c['mode']}"))
            if c["mode"] == "ucmm" and c["route_form"] != "false":
                # by design the encoded route_path follows the request data of an unwrapped unconnected request: this is how the
                # driver's own Forward Open / Forward Close append their connection path (callers pass route_path=False otherwise)
                r = {"true": ref_route(path_hops), "default": ref_route(path_hops)}.get(c["route_form"])
                if r is None:
                    r = ref_route([tuple(h) for h in c["route_hops"]])
                data = data + bytes([len(r) // 2, 0]) + r
        if e["service"] != val_of(svc):
            discs.append(Disc("service", f"router saw service {e['service']:#x}, requested {val_of(svc):#x}"))
        if e["segs"] is None or [(s[0], s[1]) for s in e["segs"]] != want_segs:
            discs.append(Disc("path", f"router saw {e['segs']}, requested {want_segs}"))
        if e["data"] != data:
            discs.append(Disc(f"data.{c['mode']}", f"router saw {len(e['data'])} bytes {e['data'][:24].hex()}.., expected {len(data)} bytes {data[:24].hex()}.."))
        # reply
        status = c["status"]
        if status == 0:
            if c["data_type"] is None:
                if not tag or tag.value != bytes(c["reply"]):
                    discs.append(Disc("reply.raw", f"Tag {tag!r}, target replied {bytes(c['reply']).hex()}"[:400]))
            else:
                try:
                    want, used = R.dec(c["data_type"], bytes(c["reply"]), 0)
                except (R.RefShort, R.RefBad):
                    want = None
                    if tag:
                        discs.append(Disc("reply.decoded.undecodable-accepted", f"reply {bytes(c['reply']).hex()} cannot be decoded as {c['data_type']} but Tag is {tag!r}"[:400]))
                if want is not None and (not tag or not R.ref_equal(tag.value, want)):
                    discs.append(Disc("reply.decoded", f"Tag {tag!r}, reference decode {want!r}"[:400]))
            if tag.tag != "probe":
                discs.append(Disc("reply.name", repr(tag.tag)))
        else:
            from pycomm3.cip import SERVICE_STATUS
            if tag:
                discs.append(Disc("refused.truthy", f"status {status:#x} but Tag {tag!r}"[:300]))
            else:
                text = SERVICE_STATUS.get(status)
                err = tag.error or ""
                if not ((text in err) if text else (f"{status:02x}" in err.lower())):
                    discs.append(Disc("refused.text", f"status {status:#x}: error {err!r}"))
        try:
            drv.close()
        except PycommError as e:
            discs.append(Disc("close.raises", repr(e)))
    except PycommError as e:
        discs.append(Disc(f"setup.raises.{type(e).__name__}", f"{pstr}: {e!r}"))
    finally:
        harness.uninstall()
    return discs


EPOCH = datetime.datetime(1970, 1, 1)
MINI_PROJECT = {"udts": [], "tags": [{"name": "t", "scope": None, "type": "DINT", "dims": [], "instance": 1, "access": 0, "alias": False}],
                "programs": [], "extras": []}


def check_helper(c):
    from pycomm3 import LogixDriver
    from pycomm3.exceptions import PycommError
    from pycomm3.cip.status_info import VENDORS, PRODUCT_TYPES, KEYSWITCH
    discs = []
    idn = dict(c["identity"])
    rack = {c["slot"]: dict(c["module"])}
    variant = c.get("variant", "logix-bare")
    if variant == "cip-bare":
        return check_helper_cip(c)
    if variant == "logix-micro800":
        return check_helper_micro800(c)
    tgt = RefPLC(MINI_PROJECT, {"/t": b"\x00" * 4}, {"identity": idn, "plc_name": c["plc_name"], "rack": rack, "expected_route": b"\x01\x00",
                                                     "wall_clock": c["clock0"]})
    import os
    import time as _time
    old_tz = os.environ.get("TZ")
    os.environ["TZ"] = c.get("tz", "UTC0")     # the reported datetime must not depend on the client's time zone
    _time.tzset()
    harness.install(tgt)
    try:
        # the controller in slot 0 of the local chassis, spelled in every way the path grammar has for it
        plc = LogixDriver({"logix-bare": "10.0.0.9", "logix-bp": "10.0.0.9/bp/0", "logix-backplane": "10.0.0.9/backplane/0", "logix-1": "10.0.0.9,1,0"}[variant], init_tags=False)
        plc.open()

        def ident_dict(i):
            return {"vendor": VENDORS.get(i["vendor"], "UNKNOWN"), "product_type": PRODUCT_TYPES.get(i["product_type"], "UNKNOWN"),
                    "product_code": i["product_code"], "revision": {"major": i["major"], "minor": i["minor"]}, "status": bytes(i["status"]),
                    "serial": "%08x" % i["serial"], "product_name": i["product_name"]}
        full = dict(tgt.identity)
        want_info = ident_dict(full)
        want_info["keyswitch"] = KEYSWITCH.get(full["status"][0], {}).get(full["status"][1], "UNKNOWN")
        info = {k: v for k, v in plc.info.items() if k in want_info}
        if info != want_info:
            discs.append(Disc("helper.plc_info", f"{info!r} != {want_info!r}"[:600]))
        if plc.info.get("name") != c["plc_name"] or plc.get_plc_name() != c["plc_name"]:
            discs.append(Disc("helper.plc_name", f"{plc.info.get('name')!r} != {c['plc_name']!r}"))
        try:
            mi = plc.get_module_info(c["slot"])
            if mi != ident_dict(dict(RefTarget({"identity": rack[c["slot"]]}).identity)):
                discs.append(Disc("helper.module_info", f"slot {c['slot']}: {mi!r}"[:500]))
        except PycommError as e:
            discs.append(Disc("helper.module_info.raises", f"slot {c['slot']}: {e!r} <- {e.__cause__!r}"[:400]))
        # helper calls must not disturb each other: after get_module_info the PLC's own identity is still reached
        again = {k: v for k, v in plc.get_plc_info().items() if k in want_info}
        if again != want_info:
            discs.append(Disc("helper.plc_info.after-module_info", f"get_plc_info() after get_module_info({c['slot']}) returned {again!r}, expected {want_info!r}"[:600]))
        us = [e["ucsend"]["route"] for e in tgt.log if "ucsend" in e]
        if us and us[-1] != b"\x01\x00":
            discs.append(Disc("helper.route.after-module_info", f"Unconnected Send route after get_module_info is {us[-1].hex()}, the driver's path is 0100"))
        t0 = plc.get_plc_time()
        if not t0 or t0.value["microseconds"] != c["clock0"]:
            discs.append(Disc("helper.get_time", f"{t0!r}, clock is {c['clock0']}"[:300]))
        r = plc.set_plc_time(c["clock1"])
        if not r:
            discs.append(Disc("helper.set_time.falsy", repr(r)[:300]))
        if tgt.wall_clock != c["clock1"]:
            discs.append(Disc("helper.set_time.value", f"target clock {tgt.wall_clock}, written {c['clock1']}"))
        t1 = plc.get_plc_time()
        if not t1 or t1.value["microseconds"] != c["clock1"] or t1.value["datetime"] != EPOCH + datetime.timedelta(microseconds=c["clock1"]):
            discs.append(Disc("helper.time.roundtrip", f"wrote {c['clock1']}, read {t1!r}"[:300]))
        mods = [e["ucsend"]["route"] for e in tgt.log if "ucsend" in e and e["ucsend"]["route"] != b"\x01\x00"]
        if mods and set(mods) != {bytes([1, c["slot"]])}:
            discs.append(Disc("helper.module_info.route", f"get_module_info({c['slot']}) on {variant} was routed along {sorted(set(m.hex() for m in mods))}, expected 01{c['slot']:02x}"))
        # ... and the driver's own route is what it was: a new connection is opened along it
        plc.close()
        plc.open()
        if plc.get_plc_name() != c["plc_name"]:
            discs.append(Disc("helper.plc_name.reopened", f"{plc.get_plc_name()!r} != {c['plc_name']!r}"))
        for prop, code, detail in tgt.audits:
            if prop in ("C14", "C09", "C15"):
                discs.append(Disc(f"audit.{code}", detail))
        plc.close()
    except PycommError as e:
        discs.append(Disc(f"helper.raises.{type(e).__name__}", f"{e!r} <- {e.__cause__!r}"[:500]))
    except Exception as e:
        from ..scenario import where
        if where(e) == "harness":
            raise
        discs.append(Disc(f"helper.foreign.{type(e).__name__}.{where(e)}", f"{e!r} (tz {c.get('tz')})"[:400]))
    finally:
        harness.uninstall()
        if old_tz is None:
            os.environ.pop("TZ", None)
        else:
            os.environ["TZ"] = old_tz
        _time.tzset()
    return discs


def check_helper_cip(c):
    """get_module_info on a plain CIPDriver addressed without a route (the usage the documentation shows): the module is reached along
    backplane/slot, and the driver's own (empty) route is unchanged afterwards - a connection opened next goes to the device itself"""
    from pycomm3 import CIPDriver
    from pycomm3.exceptions import PycommError
    from pycomm3.cip.status_info import VENDORS, PRODUCT_TYPES
    discs = []
    rack = {c["slot"]: dict(c["module"])}
    tgt = RefPLC(MINI_PROJECT, {"/t": b"\x00" * 4}, {"identity": dict(c["identity"]), "plc_name": c["plc_name"], "rack": rack, "expected_route": b""})
    harness.install(tgt)
    try:
        drv = CIPDriver("10.0.0.9")
        drv.open()
        i = dict(RefTarget({"identity": rack[c["slot"]]}).identity)
        want = {"vendor": VENDORS.get(i["vendor"], "UNKNOWN"), "product_type": PRODUCT_TYPES.get(i["product_type"], "UNKNOWN"), "product_code": i["product_code"],
                "revision": {"major": i["major"], "minor": i["minor"]}, "status": bytes(i["status"]), "serial": "%08x" % i["serial"], "product_name": i["product_name"]}
        for attempt in (1, 2):
            mi = drv.get_module_info(c["slot"])
            if mi != want:
                discs.append(Disc("helper.module_info.cip", f"call {attempt}, slot {c['slot']}: {mi!r}"[:500]))
        routes = {e["ucsend"]["route"] for e in tgt.log if "ucsend" in e}
        if routes != {bytes([1, c["slot"]])}:
            discs.append(Disc("helper.module_info.route", f"get_module_info({c['slot']}) on a driver without a route was routed along {sorted(r.hex() for r in routes)}, expected 01{c['slot']:02x}"))
        t = drv.generic_message(service=0x01, class_code=1, instance=1, connected=True)      # Get Attributes All of the device itself, over a new connection
        if not t:
            discs.append(Disc("helper.connected-after-module_info", f"connected message after get_module_info: {t!r}"[:300]))
        for prop, code, detail in tgt.audits:
            if prop in ("C14", "C09", "C15"):       # C15: the route a Forward Open carries
                discs.append(Disc(f"audit.{code}", detail + " [after get_module_info on a driver without a route]"))
        drv.close()
    except PycommError as e:
        discs.append(Disc(f"helper.cip.raises.{type(e).__name__}", f"{e!r} <- {e.__cause__!r}"[:500]))
    except Exception as e:
        from ..scenario import where
        if where(e) == "harness":
            raise
        discs.append(Disc(f"helper.cip.foreign.{type(e).__name__}.{where(e)}", f"{e!r}"[:400]))
    finally:
        harness.uninstall()
    return discs


def check_helper_micro800(c):
    """a LogixDriver on a Micro800 (no backplane hop in its route once the identity is known): `route_path=True` means the route the
    driver's own connection uses, also after open() has dropped the hop"""
    from pycomm3 import LogixDriver
    from pycomm3.exceptions import PycommError
    discs = []
    idn = dict(c["identity"], product_name="2080-LC50-24QWB", major=12)
    tgt = RefPLC(MINI_PROJECT, {"/t": b"\x00" * 4}, {"identity": idn, "plc_name": c["plc_name"], "expected_route": b""})
    harness.install(tgt)
    try:
        plc = LogixDriver("10.0.0.9", init_tags=False)
        plc.open()
        n0 = len(tgt.log)
        for mode in ("ucsend", "ucmm"):
            t = plc.generic_message(service=0x01, class_code=1, instance=1, connected=False, unconnected_send=mode == "ucsend", route_path=True)
            if not t:
                discs.append(Disc(f"helper.micro800.{mode}.falsy", f"{t!r}"[:300]))
        routes = [e["ucsend"]["route"] for e in tgt.log[n0:] if "ucsend" in e]
        if routes != [b""]:
            discs.append(Disc("helper.micro800.route", f"route_path=True on a Micro800 sent the Unconnected Send along {[r.hex() for r in routes]}, the driver's connection uses no hop"))
        direct = [e for e in tgt.log[n0:] if e["transport"] == "ucmm" and e["service"] == 0x01]
        if direct and direct[-1]["data"] not in (b"", b"\x00\x00"):
            discs.append(Disc("helper.micro800.ucmm-route", f"direct request carried {direct[-1]['data'].hex()} after its path"))
        info = plc.get_plc_info()
        if info.get("product_name") != "2080-LC50-24QWB":
            discs.append(Disc("helper.micro800.plc_info", f"{info!r}"[:300]))
        t = plc.generic_message(service=0x01, class_code=1, instance=1, connected=True)
        if not t:
            discs.append(Disc("helper.micro800.connected", f"{t!r}"[:300]))
        for prop, code, detail in tgt.audits:
            if prop in ("C14", "C09", "C15"):
                discs.append(Disc(f"audit.{code}", detail + " [Micro800]"))
        plc.close()
    except PycommError as e:
        discs.append(Disc(f"helper.micro800.raises.{type(e).__name__}", f"{e!r} <- {e.__cause__!r}"[:500]))
    except Exception as e:
        from ..scenario import where
        if where(e) == "harness":
            raise
        discs.append(Disc(f"helper.micro800.foreign.{type(e).__name__}.{where(e)}", f"{e!r}"[:400]))
    finally:
        harness.uninstall()
    return discs


# ------------------------------------------------------------------------------------------------
def id_arg(maxbits=32):
    ints = st.one_of(st.integers(1, 255), st.integers(256, 65535), st.integers(65536, 2 ** 32 - 1), st.sampled_from([1, 255, 256, 65535, 65536, 2 ** 32 - 1]))
    return st.one_of(ints, st.integers(1, 255).map(lambda v: v.to_bytes(1, "little")), st.integers(1, 65535).map(lambda v: v.to_bytes(2, "little")),
                     st.integers(1, 2 ** 32 - 1).map(lambda v: v.to_bytes(4, "little")))


ipv4 = st.lists(st.integers(0, 255), min_size=4, max_size=4).map(lambda p: ".".join(map(str, p)))
hop = st.tuples(st.sampled_from(["bp", "backplane", "enet", 1, 2, 3]), st.one_of(st.integers(0, 16), ipv4)).map(list)
DATA_TYPES = [None, None, R.T("UINT"), R.T("DINT"), R.T("STRING"), R.T("SHORT_STRING"), R.T("LREAL"),
              R.T("struct", members=[["a", R.T("UINT")], ["b", R.T("SINT")], ["c", R.T("UDINT")]]),
              R.T("array", len=3, el=R.T("INT")), R.T("array", len=None, el=R.T("UINT"))]


@st.composite
def generic_cases(draw):
    n = draw(st.one_of(st.integers(0, 12), st.sampled_from([0, 1, 2, 3, 255, 256, 401, 600]), st.integers(0, 600)))
    seed = draw(st.binary(min_size=1, max_size=6))
    dt = draw(st.sampled_from(DATA_TYPES))
    status = draw(st.one_of(st.sampled_from([0, 0, 0, 1, 2, 4, 5, 8, 9, 0x0E, 0x13, 0x14, 0x1E, 0x26, 0x55, 0xD0, 0xFF]),
                            st.sampled_from([0, 0]), st.integers(1, 255).filter(lambda x: x != 6)))   # any general status is a refusal
    if dt is not None and draw(st.booleans()):
        try:
            v = draw(_values(dt))
            reply = R.enc(dt, v)
        except Exception:
            reply = b""
    else:
        reply = draw(st.binary(max_size=40))
    cls = draw(id_arg().filter(lambda x: val_of(x) != 6))
    mode = draw(st.sampled_from(["connected", "ucmm", "ucsend"]))
    # (an Unconnected Send asked for without a route - route_path False or an empty list - is a wrapper with an empty route path)
    forms = ["default", "true", "false", "string", "list", "bytes"] + (["empty-list"] if mode == "ucsend" else [])
    return {"host": draw(st.sampled_from(HOSTS)), "path_hops": draw(st.lists(hop, max_size=3)),
            "service": draw(st.one_of(st.integers(1, 0x7F), st.integers(1, 0x7F).map(lambda v: bytes([v])),
                                      st.sampled_from([0x01, 0x03, 0x04, 0x0E, 0x10, 0x4C, 0x4D, 0x4B, 0x54, 0x4E]))),   # the common services more often
            "cls": cls, "inst": draw(id_arg()), "attr": draw(st.one_of(st.none(), st.just(0), st.just(b""), id_arg())),
            "data": (seed * (n // len(seed) + 1))[:n], "mode": mode,
            "route_form": draw(st.sampled_from(forms)), "route_seps": draw(st.sampled_from(["/", "/", "\\", ",", "/,", ",\\/"])),
            "route_hops": draw(st.lists(hop, min_size=1, max_size=3)), "data_type": dt, "status": status,
            "ext": draw(st.sampled_from([[], [], [0x0100], [0x2105, 0x0000]])) if status else [], "reply": reply,
            "session": draw(st.integers(1, 0xFFFFFFFF)), "cid": draw(st.integers(1, 0xFFFFFFFF)), "fo_policy": draw(st.sampled_from(["large", "std"]))}


def _values(dt):
    from .. import codec_common as C
    return C.values(dt)


@st.composite
def helper_cases(draw):
    def ident():
        return {"vendor": draw(st.one_of(st.integers(0, 65535), st.sampled_from([1, 2, 5]))), "product_type": draw(st.one_of(st.integers(0, 65535), st.sampled_from([12, 14]))),
                "product_code": draw(st.integers(0, 65535)), "major": draw(st.integers(1, 40)), "minor": draw(st.integers(0, 255)),
                "status": draw(st.one_of(st.binary(min_size=2, max_size=2), st.sampled_from([b"\x60\x31", b"\x70\x21", b"\x60\x11"]))),
                "serial": draw(st.one_of(st.integers(0, 0xFFFFFFFF), st.integers(0, 0xFFFF))),
                "product_name": draw(st.text(alphabet=st.characters(min_codepoint=32, max_codepoint=255), min_size=1, max_size=30).filter(lambda s: not s.startswith("2080")))}
    tmax = 253_402_300_799_000_000
    clock = st.one_of(st.integers(0, tmax), st.sampled_from([0, 1, 999_999, 1_000_000, 1_600_000_000_123_456, tmax]))
    return {"identity": ident(), "module": ident(), "slot": draw(st.one_of(st.integers(1, 16), st.integers(1, 255))), "plc_name": draw(st.text(alphabet="ABCxyz_019 ", max_size=20)),
            "clock0": draw(clock), "clock1": draw(clock), "tz": draw(st.sampled_from(["UTC0", "UTC0", "EST5", "CET-1", "NPT-5:45", "AEST-10AEDT"])),
            "variant": draw(st.sampled_from(["logix-bare", "logix-bare", "logix-bp", "logix-backplane", "logix-1", "cip-bare", "cip-bare", "logix-micro800"]))}


def classes_of(c):
    cls = [c["mode"]]
    if c["status"]:
        cls.append("refused")
    if c["data_type"] is not None:
        cls.append("typed")
    return cls


def nontrivial(c):
    return len(c["data"]) > 0 or any(val_of(c[k]) > 255 for k in ("cls", "inst") if c[k] is not None) or (c["mode"] == "ucsend" and (c["path_hops"] or c["route_form"] in ("string", "list", "bytes")))


SWEEP_SERVICES = [0x01, 0x03, 0x04, 0x0E, 0x10, 0x4B, 0x4C, 0x4D, 0x4E, 0x52, 0x54, 0x5B]


def sweep_case(svc, status, k):
    """request service x general status (every status but 0 and 6): a refusal whatever the service"""
    mode = ["connected", "ucmm", "ucsend"][k % 3]
    return {"host": "10.0.0.5", "path_hops": [["bp", 2]] if k % 2 else [], "service": svc, "cls": 0x8B if svc in (3, 4) else 1, "inst": 1,
            "attr": None if svc in (1, 3, 4) else 5, "data": b"\x01\x00\x06\x00" if svc in (3, 4) else b"", "mode": mode, "route_form": "default",
            "route_seps": "/", "route_hops": [["bp", 1]], "data_type": [None, R.T("UINT")][k % 2], "status": status, "ext": [[], [0x0100]][(k // 2) % 2],
            "reply": b"\x01\x00\x06\x00\x00\x00" + bytes(8), "session": 0x0BADF00D, "cid": 0x00C0FFEE, "fo_policy": ["large", "std"][k % 2]}


def plan(tier):
    jobs = []
    svcs = SWEEP_SERVICES if tier == "quick" else list(range(1, 0x80))
    for i in range(0, len(svcs), 3):
        jobs.append({"part": "status-sweep", "services": svcs[i:i + 3], "modes": 1 if tier == "quick" else 3})
    n = 12 if tier == "quick" else 64
    for _ in range(n):
        jobs.append({"part": "generic", "examples": 300 if tier == "quick" else 9000})
    for _ in range(4 if tier == "quick" else 16):
        jobs.append({"part": "helper", "examples": 100 if tier == "quick" else 4000})
    return jobs


def run_job(ctx, job):
    if job["part"] == "status-sweep":
        for svc in job["services"]:
            for status in range(1, 256):
                if status == 6:
                    continue
                for m in range(job["modes"]):
                    c = sweep_case(svc, status, (svc + status + m) if job["modes"] == 1 else m + 3 * ((svc + status) % 4))
                    ctx.case(("sweep", svc, status, c["mode"], c["data_type"] is not None), True, ["status-sweep", c["mode"], "refused"])
                    for d in check_generic(c):
                        ctx.violation(d, "generic", c)
        return
    if job["part"] == "generic":
        hyp_search(ctx, "generic", generic_cases(), lambda c: (check_generic(c), nontrivial(c), classes_of(c)), job["examples"])
    else:
        hyp_search(ctx, "helper", helper_cases(), lambda c: (check_helper(c), True, ["helper"]), job["examples"])


def replay(ctx, kind, case):
    return check_generic(case) if kind == "generic" else check_helper(case)
