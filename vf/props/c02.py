"""C02 - Tag writes change exactly the addressed data, exactly once."""
from .. import scenario as S
from ..runner import hyp_search
from . import c01

PID = "C02"
LEVEL = "exploration"
TECHNIQUE = ("Hypothesis-generated projects, memory images and write request lists run through the real driver against the reference "
             "target; oracle = byte-for-byte diff of the target's memory against a reference-encoder model, service-log multiset, read-back")
RULE = ("case = (project, prior memory image, configuration, list of write requests with values: atomics over the full range, slices with "
        "start index, members, integer bits, BOOL-array elements and aligned ranges, strings shorter/equal/longer than capacity, structure "
        "dicts, several bits of one word, duplicates); non-trivial = the call contains a bit / BOOL-array / string / structure write or a "
        "slice, or was split / fragmented; distinct = hash of the whole case")
LEVEL_TEXT = ("Model-based exploration: after every write call the target's whole memory image is compared with a model built by the "
              "reference encoder (nothing outside the addressed ranges may differ), the executed write services must match the successful "
              "requests one-to-one, and a read-back must return the written value; valid requests must succeed (progress).")
ASSUMPTIONS = c01.ASSUMPTIONS + [
    "overlapping writes inside one call are order-ambiguous and are replaced by exact duplicates at generation time",
    "hidden members inside a fully written structure are not compared (the library writes zeros there)",
]
FLOORS = {"quick": {"write.struct": 30, "write.boolarray.bit": 30, "write.boolarray.range": 20, "write.intbit": 30, "write.string": 30,
                    "fragmented-write": 10, "rmw": 50},
          "thorough": {"write.struct": 500, "write.boolarray.range": 300, "fragmented-write": 200}}
PROPS = ("C02",)


def check_case(case):
    run = S.run_case(case)
    return run.of(*PROPS), c01.nontrivial(run, case), sorted(run.classes)


def plan(tier):
    n = 16 if tier == "quick" else 64
    per = 160 if tier == "quick" else 1900
    return [{"part": "write", "examples": per} for _ in range(n)]


def run_job(ctx, job):
    hyp_search(ctx, "case", c01.cases("write"), check_case, job["examples"], sample_of=c01.sample_of)


def replay(ctx, kind, case):
    return check_case(case)[0]
