"""C09 - Emitted CIP paths denote the addressed object (independent strict EPATH parser as oracle)."""
from hypothesis import strategies as st

from .. import refpath as RP
from .. import scenario as S
from ..runner import Disc, hyp_search
from . import c01

PID = "C09"
LEVEL = "exploration"
TECHNIQUE = ("exhaustive enumeration of all 16-bit logical values x segment kinds x value forms, Hypothesis-generated 32-bit values, tag "
             "strings, port segments and routes; oracle = an independent strict EPATH parser must return exactly the intended sequence")
RULE = ("logical: (kind in class/instance/attribute/member/connection point, value 0..65535 exhaustively + format boundaries + random 32-bit, "
        "given as int or as 1/2/4-byte bytes) through LogicalSegment, PADDED_EPATH.encode(length=True) and request_path; tag strings: names of "
        "length 1-40, 0-3 indices per level (0..2^32-1), nested members to depth 4, Program: scope, symbolic or instance-id addressing; port "
        "segments: names/numbers 1-14 x links (slot int, numeric string, IPv4 string, raw bytes), routes of 0-4 hops; plus every path seen by the "
        "reference target in generated read/write scenarios; non-trivial = value >= 256, odd-length name/link, or >= 2 segments; distinct = hash of the input")
LEVEL_TEXT = ("Every emitted path is parsed by a second, strict implementation of CIP Vol 1 App. C (segment type / format bits, pad bytes, "
              "word count); the 16-bit value domain is enumerated completely for every logical kind and input form.")
ASSUMPTIONS = [
    "port numbers 1-14 only (15 is the extended-port escape); port names as documented (lower case)",
    "DataSegment(bytes) (simple data segment) is not asserted",
]
FLOORS = {"quick": {"logical": 300000, "tagpath": 3000, "port": 2000, "route": 1000, "wire": 1000},
          "thorough": {"logical": 300000, "tagpath": 100000, "port": 50000, "route": 30000}}
EXHAUSTIVE = False

LIBKIND = {"class": "class_id", "instance": "instance_id", "member": "member_id", "connpoint": "connection_point", "attribute": "attribute_id"}


def _lib():
    from pycomm3.cip import LogicalSegment, PADDED_EPATH, PortSegment, DataSegment
    from pycomm3.packets.util import request_path, tag_request_path
    return LogicalSegment, PADDED_EPATH, PortSegment, DataSegment, request_path, tag_request_path


def parse_sized(out, pad_length=False):
    """<words> [<pad>] path -> segments (strict)"""
    segs, raw, end = RP.parse_sized_epath(out, 0, pad_after_size=pad_length)
    if end != len(out):
        raise RP.PathError(f"{len(out) - end} bytes after the path")
    return segs


def check_logical(kind, value, form):
    from pycomm3.exceptions import DataError
    LogicalSegment, PADDED_EPATH = _lib()[:2]
    width = {"int": None, "bytes1": 1, "bytes2": 2, "bytes4": 4}[form]
    arg = value if width is None else value.to_bytes(width, "little")
    try:
        out = PADDED_EPATH.encode([LogicalSegment(arg, LIBKIND[kind])], length=True)
    except DataError as e:
        return [Disc(f"logical.rejects.{kind}.{form}", f"{kind} {value} ({form}): {e!r}")]
    except Exception as e:
        return [Disc(f"logical.foreign.{type(e).__name__}", f"{kind} {value} ({form}): {e!r}")]
    try:
        segs = parse_sized(out)
    except RP.PathError as e:
        return [Disc(f"logical.malformed.{kind}.{_wclass(value, width)}", f"{kind} {value:#x} ({form}) -> {out.hex()}: {e}")]
    # the property speaks of numbers: a value handed over as 2 or 4 bytes may be emitted in any format that holds it
    if len(segs) != 1 or segs[0][0] != kind or segs[0][1] != value:
        return [Disc(f"logical.value.{kind}.{_wclass(value, width)}", f"{kind} {value:#x} ({form}) -> {out.hex()} parses as {segs}")]
    return []


def _wclass(value, width):
    return "8" if (width or (1 if value < 256 else 2 if value < 65536 else 4)) == 1 else "16" if (width or (2 if value < 65536 else 4)) == 2 else "32"


def check_request_path(cls, inst, attr):
    request_path = _lib()[4]
    try:
        out = request_path(cls, inst, attr)
    except Exception as e:
        return [Disc(f"request_path.raises.{type(e).__name__}", f"({cls}, {inst}, {attr}): {e!r}")]

    def val(x):
        return int.from_bytes(x, "little") if isinstance(x, bytes) else x
    want = [("class", val(cls)), ("instance", val(inst))]
    if attr not in (None, b""):       # attribute 0 is an attribute; only the default (empty bytes) means "none"
        want.append(("attribute", val(attr)))
    try:
        segs = parse_sized(out)
    except RP.PathError as e:
        return [Disc("request_path.malformed", f"({cls}, {inst}, {attr}) -> {out.hex()}: {e}")]
    if [(s[0], s[1]) for s in segs] != want:
        return [Disc("request_path.value", f"({cls}, {inst}, {attr}) -> {out.hex()} parses as {segs}, intended {want}")]
    return []


def render_tag(t):
    s = (f"Program:{t['program']}." if t.get("program") else "") + t["name"]
    if t["idx"]:
        s += "[" + ",".join(str(i) for i in t["idx"]) + "]"
    for name, idx in t["members"]:
        s += "." + name
        if idx:
            s += "[" + ",".join(str(i) for i in idx) + "]"
    return s


def check_tag_path(t):
    tag_request_path = _lib()[5]
    s = render_tag(t)
    info = {"instance_id": t["instance"]} if t["instance"] else {}
    try:
        out = tag_request_path(s, info, t["use_ids"])
    except Exception as e:
        return [Disc(f"tagpath.raises.{type(e).__name__}", f"{s}: {e!r}")]
    if out is None:
        return [Disc("tagpath.none", f"{s}: no path")]
    want = []
    if t["use_ids"] and not t.get("program") and t["instance"]:
        want += [("class", 0x6B), ("instance", t["instance"])]
    else:
        if t.get("program"):
            want.append(("symbol", ("Program:" + t["program"]).encode()))
        want.append(("symbol", t["name"].encode()))
    want += [("member", i) for i in t["idx"]]
    for name, idx in t["members"]:
        want.append(("symbol", name.encode()))
        want += [("member", i) for i in idx]
    try:
        segs = parse_sized(out)
    except RP.PathError as e:
        return [Disc("tagpath.malformed", f"{s} -> {out.hex()}: {e}")]
    if [(x[0], x[1]) for x in segs] != want:
        return [Disc("tagpath.value", f"{s} -> {out.hex()} parses as {[(x[0], x[1]) for x in segs]}, intended {want}")]
    return []


def link_bytes(link):
    if isinstance(link, int):
        return bytes([link])
    if isinstance(link, str):
        return bytes([int(link)]) if link.isdigit() else link.encode("ascii")
    return bytes(link)


def check_route(hops, pad_length):
    PADDED_EPATH, PortSegment = _lib()[1], _lib()[2]
    try:
        out = PADDED_EPATH.encode([PortSegment(p, l) for p, l in hops], length=True, pad_length=pad_length)
    except Exception as e:
        return [Disc(f"route.raises.{type(e).__name__}", f"{hops}: {e!r}")]
    want = [("port", RP.PORT_NAMES[p] if isinstance(p, str) else p, link_bytes(l)) for p, l in hops]
    try:
        segs = parse_sized(out, pad_length)
    except RP.PathError as e:
        return [Disc("route.malformed", f"{hops} -> {out.hex()}: {e}")]
    if segs != want:
        return [Disc("route.value", f"{hops} -> {out.hex()} parses as {segs}, intended {want}")]
    return []


# ------------------------------------------------------------------------------------------------
NAMECH = "ABCDEFGHIJKLMNOPQRSTUVWXYZabcdefghijklmnopqrstuvwxyz0123456789_"
idx_value = st.one_of(st.integers(0, 300), st.sampled_from([0, 255, 256, 65535, 65536, 2 ** 32 - 1]), st.integers(0, 2 ** 32 - 1))


def names(maxlen=40):
    return st.one_of(st.integers(1, 8), st.sampled_from([1, 2, 39, 40]), st.integers(1, maxlen)).flatmap(
        lambda n: st.tuples(st.sampled_from(NAMECH[:52]), st.text(alphabet=NAMECH, min_size=n - 1, max_size=n - 1)).map(lambda ab: ab[0] + ab[1]))


@st.composite
def tag_strings(draw):
    return {
        "program": draw(st.one_of(st.none(), st.none(), names(12))),
        "name": draw(names()),
        "idx": draw(st.lists(idx_value, max_size=3)),
        "members": [[draw(names(20)), draw(st.lists(idx_value, max_size=3))] for _ in range(draw(st.integers(0, 4)))],
        "instance": draw(st.one_of(st.none(), st.integers(1, 255), st.sampled_from([255, 256, 65535, 65536, 2 ** 32 - 1]), st.integers(1, 2 ** 32 - 1))),
        "use_ids": draw(st.booleans()),
    }


ipv4 = st.lists(st.integers(0, 255), min_size=4, max_size=4).map(lambda p: ".".join(map(str, p)))
links = st.one_of(st.integers(0, 255), st.integers(0, 255).map(str), ipv4, st.binary(min_size=1, max_size=9))
ports = st.one_of(st.sampled_from(sorted(RP.PORT_NAMES)), st.integers(1, 14), st.integers(1, 14),
                  st.sampled_from([15, 16, 17, 31, 32, 255, 256, 65535]), st.integers(15, 65535))   # 15 and above: extended port identifier


def plan(tier):
    jobs = []
    for kind in LIBKIND:
        for lo in range(0, 65536, 16384):
            jobs.append({"part": "logical", "kind": kind, "lo": lo, "hi": lo + 16384})
    n = 8 if tier == "quick" else 32
    for _ in range(n):
        jobs.append({"part": "random", "examples": 1000 if tier == "quick" else 30000})
    for i in range(8 if tier == "quick" else 32):
        jobs.append({"part": "wire", "op": "read" if i % 2 else "write", "examples": 160 if tier == "quick" else 1200})
    for i in range(2 if tier == "quick" else 8):
        jobs.append({"part": "helper-route", "examples": 60 if tier == "quick" else 1000})
    return jobs


def run_job(ctx, job):
    part = job["part"]
    if part == "logical":
        kind = job["kind"]
        for v in range(job["lo"], job["hi"]):
            forms = ["int", "bytes2", "bytes4"] + (["bytes1"] if v < 256 else [])
            for form in forms:
                discs = check_logical(kind, v, form)
                ctx.case(("logical", kind, v, form), v >= 256 or form != "int", ["logical"],
                         sample={"kind": kind, "value": v, "form": form} if v in (255, 256) else None)
                for d in discs:
                    ctx.violation(d, "logical", {"kind": kind, "value": v, "form": form})
        ctx.exhaustive_parts.append("all 16-bit values x 5 logical kinds x int/bytes forms")
    elif part == "helper-route":
        # the paths sent by the helpers built on generic messaging (module identity along backplane/slot) and the connection path of a
        # connection opened afterwards: the helper must not have changed where the driver's own route leads
        from . import c14
        hyp_search(ctx, "helper", c14.helper_cases(), lambda c: (check_helper_route(c), True, ["helper-route", "helper-route." + c["variant"]]), job["examples"])
    elif part == "random":
        @st.composite
        def cases(draw):
            k = draw(st.sampled_from(["logical32", "request_path", "tag", "tag", "route", "route"]))
            if k == "logical32":
                v = draw(st.one_of(st.integers(65536, 2 ** 32 - 1), st.sampled_from([65536, 2 ** 31, 2 ** 32 - 1, 0x01000000])))
                return {"k": k, "kind": draw(st.sampled_from(sorted(LIBKIND))), "value": v, "form": draw(st.sampled_from(["int", "bytes4"]))}
            if k == "request_path":
                def arg():
                    return st.one_of(st.integers(0, 2 ** 32 - 1), st.integers(0, 300), st.binary(min_size=1, max_size=1), st.binary(min_size=2, max_size=2),
                                     st.binary(min_size=4, max_size=4))
                return {"k": k, "cls": draw(arg()), "inst": draw(arg()), "attr": draw(st.one_of(st.just(b""), st.just(0), arg()))}
            if k == "tag":
                return {"k": k, "t": draw(tag_strings())}
            return {"k": k, "hops": draw(st.lists(st.tuples(ports, links).map(list), max_size=4)), "pad": draw(st.booleans())}

        def check_case(c):
            return check_random(c), True, [{"logical32": "logical", "request_path": "request_path", "tag": "tagpath", "route": "route"}[c["k"]]] + \
                (["port"] * len(c["hops"]) if c["k"] == "route" else [])

        hyp_search(ctx, "random", cases(), check_case, job["examples"])
    else:
        @st.composite
        def wire_cases(draw):
            case = draw(c01.cases(job["op"]))
            case["micro_first"] = draw(st.integers(0, 3)) == 0
            micro = case["cfg"]["identity"]["product_name"].startswith("2080")
            if not micro and draw(st.integers(0, 3)) == 0:
                # the controller is reached along a written-out route of 1-3 hops (ending on a slot or on a network address): every
                # Forward Open / Unconnected Send of the scenario must carry exactly that route
                hops = [[draw(st.sampled_from(["bp", "backplane", "enet", 1, 2, 3])), draw(st.one_of(st.integers(0, 16), ipv4))] for _ in range(draw(st.integers(1, 3)))]
                case["path"] = "192.168.1.10/" + "/".join(f"{p_}/{l}" for p_, l in hops)
                case["cfg"] = dict(case["cfg"], expected_route=RP.enc_route([(RP.PORT_NAMES.get(p_, p_) if isinstance(p_, str) else p_, l) for p_, l in hops]))
            return case

        hyp_search(ctx, "wire", wire_cases(), lambda case: (check_wire(case), True, ["wire"] + (["wire.after-micro800"] if case.get("micro_first") else [])),
                   job["examples"], sample_of=c01.sample_of)


def check_wire(case):
    """paths seen by the reference target during a generated scenario; optionally another driver object has talked to a Micro800
    first (the route of one driver must not depend on what other drivers did)"""
    if case.get("micro_first"):
        from .. import harness
        from ..refplc import RefPLC
        from .c14 import MINI_PROJECT
        from pycomm3 import LogixDriver
        from pycomm3.exceptions import PycommError
        t0 = RefPLC(MINI_PROJECT, {"/t": b"\x00" * 4}, {"identity": {"product_name": "2080-LC50-24QWB", "major": 12}, "expected_route": b""})
        harness.install(t0)
        try:
            d = LogixDriver("192.168.1.77")
            d.open()
            d.read("t")
            d.close()
        except PycommError:
            pass
        finally:
            harness.uninstall()
    run = S.run_case(case, want_readback=False)
    discs = run.of("C09")
    discs += [Disc("route." + d.bucket, d.detail) for d in run.of("C15") if d.bucket.endswith(".route")]
    return discs


def check_helper_route(c):
    from . import c14
    return [d for d in c14.check_helper(c) if d.bucket.startswith(("audit.", "helper.module_info.route", "helper.route"))]


def check_random(c):
    if c["k"] == "logical32":
        return check_logical(c["kind"], c["value"], c["form"])
    if c["k"] == "request_path":
        return check_request_path(c["cls"], c["inst"], c["attr"])
    if c["k"] == "tag":
        return check_tag_path(c["t"])
    return check_route([tuple(h) for h in c["hops"]], c["pad"])


def replay(ctx, kind, case):
    if kind == "logical":
        return check_logical(case["kind"], case["value"], case["form"])
    if kind == "random":
        return check_random(case)
    if kind == "helper":
        return check_helper_route(case)
    return check_wire(case)
