"""atheris target for C13: (request kind index, reply bytes) -> reply classification oracle (props/c13.py:check_reply_bytes)."""
import json
import os
import sys

import atheris

from . import runner

if runner.REPO not in sys.path[:1]:
    sys.path.insert(0, runner.REPO)
with atheris.instrument_imports(include=["pycomm3"]):
    import pycomm3  # noqa
    import pycomm3.packets  # noqa
    import pycomm3.cip.data_types  # noqa
    import pycomm3.custom_types  # noqa
runner.setup_imports()
from . import findings  # noqa
from .props import c13  # noqa

OUT = os.environ.get("VF_FUZZ_OUT", "/dev/null")
KNOWN = findings.Known.load()
state = {"n": 0, "nt": set(), "found": None}


def flush():
    with open(OUT + ".tmp", "w") as fh:
        json.dump({"nt": sorted(state["nt"])[:20000], "found": state["found"], "execs": state["n"]}, fh)
    os.replace(OUT + ".tmp", OUT)


def one(data):
    state["n"] += 1
    if not data:
        return
    ki, frame = data[0], bytes(data[1:])
    discs = c13.check_reply_bytes(ki, frame)
    if len(state["nt"]) < 20000 and len(frame) >= 24:     # non-trivial: at least a whole encapsulation header
        state["nt"].add(runner.h64(data))
    live = [d for d in discs if KNOWN.match("C13", d, {"ki": ki, "frame": frame.hex()}) is None]
    if live:
        state["found"] = {"data": bytes(data).hex(), "bucket": live[0].bucket, "detail": live[0].detail}
        flush()
        raise RuntimeError("C13 violation: " + live[0].bucket)
    if state["n"] % 5000 == 0:
        flush()


def main():
    flush()
    atheris.Setup(sys.argv, one)
    atheris.Fuzz()


if __name__ == "__main__":
    main()
