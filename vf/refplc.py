"""Independent, strict, stateful reference EtherNet/IP + CIP + Logix target.

Written from the protocol documents (EtherNet/IP Vol 2 ch. 2, CIP Vol 1 ch. 3 + App. C, Logix Data
Access manual 1756-PM020) with `struct` only.  Imports nothing from pycomm3.

`handle(frame) -> reply bytes | None`.  Every deviation from the specifications that the properties
speak about is recorded as an audit event `(property, code, detail)`; everything the target executes is
logged (router log, tag-service log, frames) so the oracles can compare it with the intent.
"""
import struct

from . import refpath
from .project import ATOMIC, INT_BITS, LocateError, Project
from .refcodec import encode_identity, encode_list_identity_item
from .refpath import PathError, parse_epath

ENC_LIST_IDENTITY = 0x63
ENC_REGISTER = 0x65
ENC_UNREGISTER = 0x66
ENC_RRDATA = 0x6F
ENC_UNITDATA = 0x70

# Connection-manager extended status codes for general status 0x01 (CIP Vol 1, table 3-5.29)
CM_EXT_CODES = [0x0100, 0x0103, 0x0106, 0x0107, 0x0108, 0x0109, 0x0110, 0x0111, 0x0112, 0x0113, 0x0114, 0x0115, 0x0116, 0x0117, 0x0118, 0x0119,
                0x011A, 0x011B, 0x0203, 0x0204, 0x0205, 0x0206, 0x0207, 0x0301, 0x0302, 0x0303, 0x0304, 0x0305, 0x0306, 0x0311, 0x0312, 0x0315,
                0x0316, 0x0317, 0x0318, 0x0319, 0x031A, 0x031B, 0x031C, 0x031D, 0x031E, 0x0800, 0x0810, 0x0811, 0x0812, 0x0813]

DEFAULT_IDENTITY = {
    "vendor": 1, "product_type": 14, "product_code": 55, "major": 32, "minor": 11,
    "status": b"\x60\x31", "serial": 0x00C0FFEE, "product_name": "1756-L83E/B",
    "ip": "192.168.1.10", "state": 3,
}


class RefTarget:
    """Encapsulation, common packet format, connection manager, message-router dispatch."""

    def __init__(self, cfg=None):
        cfg = dict(cfg or {})
        self.cfg = cfg
        self.identity = dict(DEFAULT_IDENTITY, **cfg.get("identity", {}))
        self.bridge_identity = dict(DEFAULT_IDENTITY, **cfg["bridge_identity"]) if cfg.get("bridge_identity") else None
        self.session_handle = cfg.get("session_handle", 0x11223344)
        self.conn_ids = list(cfg.get("conn_ids", [0x00BEEF01, 0x00BEEF02, 0x00BEEF03, 0x00BEEF04]))
        self.fo_policy = cfg.get("fo_policy", "large")       # large | std | none
        self.fo_refuse = cfg.get("fo_refuse", (0x01, [0x0109]))  # status, ext words for a refused Forward Open
        self.session_policy = cfg.get("session_policy", "ok")  # ok | refuse
        self.fc_policy = cfg.get("fc_policy", "ok")          # ok | refuse
        self.expected_route = cfg.get("expected_route")      # bytes of the port segments or None
        self.slot = cfg.get("slot", 0)
        self.rack = cfg.get("rack", {})                      # slot -> identity dict (other modules)
        self.generic = cfg.get("generic", {})                # (service, class, instance, attribute|None) -> (status, ext, data)
        self.forced = list(cfg.get("forced", []))
        self.unitdata_n = 0
        self.encap_refused = 0
        self.registered = False
        self.connections = {}    # O->T id -> dict
        self.conn_counter = 0
        self.audits = []
        self.frames = []
        self.log = []            # message-router requests
        self.fo_attempts = []    # (kind, size, accepted)
        self.enc_log = []        # encapsulation commands in order
        self.tag_requests = 0
        self.dead = False

    # -- helpers ------------------------------------------------------------------------------
    def audit(self, prop, code, detail=""):
        self.audits.append((prop, code, str(detail)[:400]))

    def tcp_closed(self):
        """orderly TCP close by the client: the session ends with the TCP connection (EtherNet/IP Vol 2, 2-3.6);
        CIP connections stay until they are closed or time out"""
        self.session_at_tcp_close = self.registered
        self.registered = False

    def peer_lost(self):
        """TCP connection died: the target drops the client's session and connections."""
        self.registered = False
        self.connections.clear()

    @staticmethod
    def enc_header(cmd, length, session, status=0, ctx=b"\x00" * 8, options=0):
        return struct.pack("<HHII8sI", cmd, length, session, status, ctx, options)

    @staticmethod
    def cip_reply(service, status=0, ext=(), data=b""):
        return bytes([service | 0x80, 0, status, len(ext)]) + b"".join(struct.pack("<H", e & 0xFFFF) for e in ext) + data

    # -- encapsulation ------------------------------------------------------------------------
    def handle(self, frame):
        frame = bytes(frame)
        self.frames.append(frame)
        if len(frame) < 24:
            self.audit("C11", "frame.short", frame.hex())
            return None
        cmd, length, session, status, ctx, options = struct.unpack_from("<HHII8sI", frame, 0)
        body = frame[24:]
        self.enc_log.append(cmd)
        if length != len(body):
            self.audit("C11", "frame.length", f"length field {length}, {len(body)} bytes follow (cmd {cmd:#x})")
        if status != 0:
            self.audit("C11", "frame.status", f"status {status:#x} in a request")
        if options != 0:
            self.audit("C11", "frame.options", f"options {options:#x}")

        if cmd == ENC_REGISTER:
            if body != b"\x01\x00\x00\x00":
                self.audit("C11", "register.body", body.hex())
            if session != 0:
                self.audit("C11", "register.session", f"session {session:#x} in RegisterSession request")
            if self.session_policy == "refuse":
                # a refusal carries a non-zero status; the session field of such a reply is meaningless (may be non-zero)
                return self.enc_header(cmd, 4, self.cfg.get("session_refuse_handle", 0), self.cfg.get("session_refuse_status", 0x01), ctx) + b"\x01\x00\x00\x00"
            self.registered = True
            # every registration is granted a handle of its own (a client must use the one it was given last, not one it remembers)
            self.reg_count = getattr(self, "reg_count", 0) + 1
            if self.reg_count > 1 and self.cfg.get("fresh_handles", True):
                self.session_handle = ((self.cfg.get("session_handle", 0x11223344) + 0x9E3779B1 * (self.reg_count - 1)) & 0xFFFFFFFF) or 1
            return self.enc_header(cmd, 4, self.session_handle, 0, ctx) + b"\x01\x00\x00\x00"

        if cmd == ENC_UNREGISTER:
            if body:
                self.audit("C11", "unregister.body", body.hex())
            self._check_session(cmd, session)
            if session == self.session_handle:
                self.registered = False
                if not self.cfg.get("unregister_keeps_connections"):
                    self.connections.clear()   # (a target may also hold them until they time out: see cfg)
            return None

        if cmd == ENC_LIST_IDENTITY:
            if body:
                self.audit("C11", "listidentity.body", body.hex())
            self._check_session(cmd, session)
            # ListIdentity is answered by whatever owns the Ethernet port: the controller itself, or a bridge module in front of it
            item = encode_list_identity_item(self.bridge_identity or self.identity)
            data = struct.pack("<HHH", 1, 0x0C, len(item)) + item
            return self.enc_header(cmd, len(data), session, 0, ctx) + data

        if cmd == ENC_UNITDATA:
            k = self.unitdata_n
            self.unitdata_n += 1
            for rule in self.forced:
                if rule.get("when", {}).get("unitdata") == k:
                    # the frame is refused at the encapsulation layer: header-only reply with an error status, nothing executed
                    self.encap_refused += 1
                    return self.enc_header(cmd, 0, session, rule["status"], ctx)
        if cmd in (ENC_RRDATA, ENC_UNITDATA):
            if not self.registered or session != self.session_handle:
                if cmd == ENC_UNITDATA:
                    self.audit("C10", "unitdata.no-session", f"SendUnitData with session {session:#x}, registered={self.registered}")
                elif self.registered:
                    self.audit("C11", "session.mismatch", f"session {session:#x}, granted {self.session_handle:#x}")
                elif session != 0:
                    self.audit("C11", "session.stale", f"session {session:#x} used while no session is registered")
                if not self.cfg.get("lenient_session"):
                    return self.enc_header(cmd, 0, session, 0x64, ctx)
                # a lenient device serves the request anyway, which shows what the client goes on to do
            try:
                items = self._parse_cpf(cmd, body)
            except ValueError as e:
                self.audit("C11", "cpf." + str(e).split(":")[0], str(e))
                return self.enc_header(cmd, 0, session, 0x03, ctx)
            if cmd == ENC_RRDATA:
                reply_cip = self._unconnected(items[1])
                if reply_cip is None:
                    return None
                cpf = struct.pack("<IHH", 0, 0, 2) + struct.pack("<HH", 0, 0) + struct.pack("<HH", 0xB2, len(reply_cip)) + reply_cip
                return self.enc_header(cmd, len(cpf), session, 0, ctx) + cpf
            reply = self._connected(items[0], items[1])
            if reply is None:
                return None
            to_id, data = reply
            cpf = struct.pack("<IHH", 0, 0, 2) + struct.pack("<HHI", 0xA1, 4, to_id) + struct.pack("<HH", 0xB1, len(data)) + data
            return self.enc_header(cmd, len(cpf), session, 0, ctx) + cpf

        self.audit("C11", "frame.command", f"unknown encapsulation command {cmd:#x}")
        return self.enc_header(cmd, 0, session, 0x01, ctx)

    def _check_session(self, cmd, session):
        if self.registered:
            if session != self.session_handle:
                self.audit("C11", "session.mismatch", f"cmd {cmd:#x}: session {session:#x}, granted {self.session_handle:#x}")
        elif session != 0:
            self.audit("C11", "session.stale", f"cmd {cmd:#x}: session {session:#x} used while no session is registered")

    def _parse_cpf(self, cmd, body):
        if len(body) < 8:
            raise ValueError("short: common packet shorter than its fixed part")
        iface, timeout, count = struct.unpack_from("<IHH", body, 0)
        if iface != 0:
            raise ValueError(f"interface: interface handle {iface:#x}")
        if count != 2:
            raise ValueError(f"itemcount: {count} items")
        pos = 8
        items = []
        for i in range(2):
            if pos + 4 > len(body):
                raise ValueError("items: item header beyond the frame")
            typ, ln = struct.unpack_from("<HH", body, pos)
            pos += 4
            if pos + ln > len(body):
                raise ValueError(f"itemlength: item {i} length {ln} exceeds the frame")
            items.append((typ, body[pos:pos + ln]))
            pos += ln
        if pos != len(body):
            raise ValueError(f"trailing: {len(body) - pos} bytes after the last item")
        if cmd == ENC_RRDATA:
            if items[0] != (0, b""):
                raise ValueError(f"address: unconnected message with address item {items[0][0]:#x}/{len(items[0][1])}")
            if items[1][0] != 0xB2:
                raise ValueError(f"dataitem: unconnected data item type {items[1][0]:#x}")
        else:
            if items[0][0] != 0xA1 or len(items[0][1]) != 4:
                raise ValueError(f"address: connected message with address item {items[0][0]:#x}/{len(items[0][1])}")
            if items[1][0] != 0xB1:
                raise ValueError(f"dataitem: connected data item type {items[1][0]:#x}")
            if len(items[1][1]) < 2:
                raise ValueError("sequence: connected data item without sequence count")
        return items

    # -- connected / unconnected ----------------------------------------------------------------
    def _connected(self, addr, data_item):
        cid = struct.unpack("<I", addr[1])[0]
        conn = self.connections.get(cid)
        if conn is None:
            self.audit("C10", "unitdata.unknown-connection", f"connection id {cid:#x} was never granted / is closed")
            return None
        data = data_item[1]
        if len(data) > conn["size"]:
            self.audit("C04", "request.too-large", f"connected data item {len(data)} bytes > negotiated {conn['size']}")
        seq = struct.unpack_from("<H", data, 0)[0]
        if conn["last_seq"] is not None and seq == conn["last_seq"]:
            self.audit("C17", "seq.duplicate", f"sequence count {seq} repeated on connection {cid:#x}")
            if conn["last_reply"] is not None:
                return conn["to_id"], conn["last_reply"]   # duplicate detection: replay, do not execute
        conn["last_seq"] = seq
        conn["n"] += 1
        if len(data) > conn["size"] and self.cfg.get("enforce_size", True) and len(data) > 2:
            reply_cip = self.cip_reply(data[2], 0x15)     # too much data: a real target does not process it
        else:
            reply_cip = self._dispatch_cip(data[2:], "connected", conn)
        out = struct.pack("<H", seq) + reply_cip
        if len(out) > conn["size"]:
            self.audit("C04", "reply.too-large", f"solicited reply of {len(out)} bytes > negotiated {conn['size']}")
        conn["last_reply"] = out
        return conn["to_id"], out

    def _unconnected(self, data_item):
        return self._dispatch_cip(data_item[1], "ucmm", None)

    def _dispatch_cip(self, msg, transport, conn, route=None):
        if len(msg) < 2:
            self.audit("C09", "cip.short", msg.hex())
            return self.cip_reply(msg[0] if msg else 0, 0x04)
        service, words = msg[0], msg[1]
        end = 2 + 2 * words
        if service & 0x80:
            self.audit("C14", "cip.service-msb", f"request service {service:#x}")
        if end > len(msg):
            self.audit("C09", "path.size", f"path size {words} words but only {len(msg) - 2} bytes follow")
            return self.cip_reply(service, 0x04)
        raw = msg[2:end]
        try:
            segs = parse_epath(raw)
        except PathError as e:
            self.audit("C09", "path.malformed", f"{raw.hex()}: {e}")
            self.log.append({"transport": transport, "service": service, "rawpath": raw, "segs": None, "data": msg[end:], "route": route})
            return self.cip_reply(service, 0x04)
        data = msg[end:]
        entry = {"transport": transport, "service": service, "rawpath": raw, "segs": segs, "data": data, "route": route}
        self.log.append(entry)
        status, ext, rdata = self.route(service, segs, data, transport, conn, entry)
        if status == "raw":  # Unconnected Send: the reply is the embedded service's reply, verbatim
            entry["status"] = ext[2] if len(ext) > 2 else 0x04
            return ext
        entry["status"] = status
        return self.cip_reply(service, status, ext, rdata)

    # -- message router -------------------------------------------------------------------------
    def route(self, service, segs, data, transport, conn, entry):
        for rule in self.forced:
            w = rule.get("when", {})
            if "service" in w and w["service"] == service and w.get("transport", transport) == transport and \
                    ("class" not in w or (segs and segs[0][:2] == ("class", w["class"]))):
                if rule.get("once"):
                    self.forced.remove(rule)
                return rule["status"], rule.get("ext", []), rule.get("data", b"")
        if len(segs) >= 2 and segs[0][0] == "class" and segs[1][0] == "instance":
            cls, inst = segs[0][1], segs[1][1]
            attr = segs[2][1] if len(segs) > 2 and segs[2][0] == "attribute" else None
            if cls == 0x06:
                return self.connection_manager(service, inst, data, transport, entry)
            key = (service, cls, inst, attr)
            if key in self.generic:
                return self.generic[key]
        return self.route_object(service, segs, data, transport, conn, entry)

    def route_object(self, service, segs, data, transport, conn, entry):
        if len(segs) >= 2 and segs[0] == ("class", 0x01, 1) and segs[1][0] == "instance" and segs[1][1] == 1 and service == 0x01:
            return 0, [], encode_identity(self.identity)
        return 0x08, [], b""

    # -- connection manager -----------------------------------------------------------------------
    def connection_manager(self, service, inst, data, transport, entry):
        if transport != "ucmm":
            self.audit("C10", "cm.transport", f"connection manager service {service:#x} over {transport}")
        if inst != 1:
            return 0x05, [], b""
        if service in (0x54, 0x5B):
            return self.forward_open(service, data)
        if service == 0x4E:
            return self.forward_close(data)
        if service == 0x52:
            return self.unconnected_send(data, entry)
        return 0x08, [], b""

    def _check_route(self, raw_path, what, prop="C15"):
        """path = port segments + 20 02 24 01"""
        try:
            segs = parse_epath(raw_path)
        except PathError as e:
            self.audit("C09", what + ".path.malformed", f"{raw_path.hex()}: {e}")
            return None
        if len(segs) < 2 or segs[-2][:2] != ("class", 2) or segs[-1][:2] != ("instance", 1):
            self.audit("C09", what + ".path.target", f"connection path {raw_path.hex()} does not end at the message router")
            return None
        if any(s[0] != "port" for s in segs[:-2]):
            self.audit("C09", what + ".path.segments", f"unexpected segment kinds in {raw_path.hex()}")
        route = raw_path[:-4]
        if self.expected_route is not None and route != self.expected_route:
            self.audit(prop, what + ".route", f"route {route.hex()} != configured route {self.expected_route.hex()}")
        return segs

    def forward_open(self, service, data):
        large = service == 0x5B
        fixed = 36 + (8 if large else 4)
        if len(data) < fixed:
            self.audit("C10", "fo.short", f"{len(data)} bytes")
            return 0x13, [], b""
        prio, ticks, ot_id, to_id, serial, vendor, orig = struct.unpack_from("<BBIIHHI", data, 0)
        mult = data[18]
        if data[19:22] != b"\x00\x00\x00":
            self.audit("C10", "fo.reserved", data[19:22].hex())
        pos = 22
        ot_rpi = struct.unpack_from("<I", data, pos)[0]
        pos += 4
        if large:
            ot_par = struct.unpack_from("<I", data, pos)[0]
            pos += 4
        else:
            ot_par = struct.unpack_from("<H", data, pos)[0]
            pos += 2
        to_rpi = struct.unpack_from("<I", data, pos)[0]
        pos += 4
        if large:
            to_par = struct.unpack_from("<I", data, pos)[0]
            pos += 4
        else:
            to_par = struct.unpack_from("<H", data, pos)[0]
            pos += 2
        transport_cls = data[pos]
        words = data[pos + 1]
        path = data[pos + 2:]
        if len(path) != 2 * words:
            self.audit("C09", "fo.pathsize", f"connection path size {words} words but {len(path)} bytes follow")
        size = (ot_par & 0xFFFF) if large else (ot_par & 0x1FF)
        size_t = (to_par & 0xFFFF) if large else (to_par & 0x1FF)
        self._check_route(path, "fo")
        if not large and size != 500:
            self.audit("C10", "fo.std.size", f"standard Forward Open asks for {size} bytes, expected 500")
        accepted = self.fo_policy == "large" or (self.fo_policy == "std" and not large)
        in_use = any(c["triple"] == (serial, vendor, orig) for c in self.connections.values()) and not self.cfg.get("allow_duplicate_triple")
        self.fo_attempts.append(("large" if large else "std", size, accepted and not in_use))
        if not accepted:
            st, ext = self.fo_refuse
            return st, list(ext), struct.pack("<HHIBB", serial, vendor, orig, 0, 0)
        if in_use:
            return 0x01, [0x0100], struct.pack("<HHIBB", serial, vendor, orig, 0, 0)
        cid = self.conn_ids[self.conn_counter % len(self.conn_ids)]
        self.conn_counter += 1
        while cid in self.connections:
            cid = (cid + 1) & 0xFFFFFFFF or 1
        self.connections[cid] = {"size": min(size, size_t), "to_id": to_id, "triple": (serial, vendor, orig),
                                 "last_seq": None, "last_reply": None, "n": 0, "large": large}
        return 0, [], struct.pack("<IIHHIIIBB", cid, to_id, serial, vendor, orig, ot_rpi, to_rpi, 0, 0)

    def forward_close(self, data):
        if len(data) < 12:
            self.audit("C10", "fc.short", data.hex())
            return 0x13, [], b""
        prio, ticks, serial, vendor, orig, words, rsvd = struct.unpack_from("<BBHHIBB", data, 0)
        path = data[12:]
        if len(path) != 2 * words:
            self.audit("C09", "fc.pathsize", f"connection path size {words} words but {len(path)} bytes follow")
        if rsvd != 0:
            self.audit("C09", "fc.reserved", f"{rsvd:#x}")
        self._check_route(path, "fc")
        if self.fc_policy == "refuse":
            return 0x01, [0x0107], struct.pack("<HHIBB", serial, vendor, orig, 0, 0)
        for cid, c in list(self.connections.items()):
            if c["triple"] == (serial, vendor, orig):
                del self.connections[cid]
                return 0, [], struct.pack("<HHIBB", serial, vendor, orig, 0, 0)
        return 0x01, [0x0107], struct.pack("<HHIBB", serial, vendor, orig, 0, 0)

    def unconnected_send(self, data, entry):
        if len(data) < 4:
            self.audit("C14", "ucsend.short", data.hex())
            return 0x13, [], b""
        prio, ticks, mlen = struct.unpack_from("<BBH", data, 0)
        pos = 4
        if pos + mlen > len(data):
            self.audit("C14", "ucsend.length", f"embedded length {mlen} exceeds the {len(data) - pos} bytes present")
            return 0x13, [], b""
        msg = data[pos:pos + mlen]
        pos += mlen
        if mlen % 2:
            if pos >= len(data) or data[pos] != 0:
                self.audit("C14", "ucsend.pad", "odd-length embedded message not followed by a 0x00 pad")
            else:
                pos += 1
        if pos + 2 > len(data):
            self.audit("C14", "ucsend.route.missing", data[pos:].hex())
            return 0x13, [], b""
        words, rsvd = data[pos], data[pos + 1]
        route = data[pos + 2:]
        if rsvd != 0:
            self.audit("C14", "ucsend.route.reserved", f"{rsvd:#x}")
        if len(route) != 2 * words:
            self.audit("C14", "ucsend.route.size", f"route path size {words} words but {len(route)} bytes follow (embedded length {mlen})")
        try:
            rsegs = parse_epath(route)
            if any(s[0] != "port" for s in rsegs):
                self.audit("C09", "ucsend.route.segments", route.hex())
        except PathError as e:
            self.audit("C09", "ucsend.route.malformed", f"{route.hex()}: {e}")
            rsegs = None
        entry["ucsend"] = {"embedded": msg, "route": bytes(route), "priority": prio, "ticks": ticks}
        if self.cfg.get("ucsend_policy") == "refuse":
            return 0x08, [], b""
        # where does the route lead?
        target = self
        if self.cfg.get("ucsend_any_route"):
            pass
        elif self.expected_route is not None and bytes(route) != self.expected_route and rsegs:
            # same chassis, other slot?
            if bytes(route[:-2]) == self.expected_route[:-2] and rsegs[-1][1] == 1 and len(rsegs[-1][2]) == 1:
                slot = rsegs[-1][2][0]
                if slot != self.slot:
                    if slot in self.rack:
                        target = RefTarget({"identity": self.rack[slot]})
                    else:
                        return 0x01, [0x0312], b""
            else:
                self.audit("C15", "ucsend.route", f"route {bytes(route).hex()} != configured route {self.expected_route.hex()}")
                return 0x01, [0x0311], b""
        reply = target._dispatch_cip(msg, "ucsend", None, route=bytes(route))
        if target is not self:
            self.log += target.log
            self.audits += target.audits
        # the reply to an Unconnected Send is the embedded service's reply
        entry["embedded_reply"] = reply
        return "raw", reply, None


# =================================================================================================
class RefPLC(RefTarget):
    """Logix controller: symbol / template objects, tag services on a byte-exact memory image."""

    def __init__(self, project, memory, cfg=None):
        super().__init__(cfg)
        cfg = self.cfg
        self.project = project if isinstance(project, Project) else Project(project)
        self.memory = {k: bytearray(v) for k, v in memory.items()}
        self.fw_major = self.identity["major"]
        self.micro800 = self.identity["product_name"].startswith("2080")
        self.plc_name = cfg.get("plc_name", "MainController")
        self.page_size = cfg.get("page_size", 480)
        self.tmpl_frag = cfg.get("tmpl_frag", 480)
        self.room_refused = 0
        self.read_cap = cfg.get("read_cap")           # None -> whatever the connection allows
        self.bool_true = cfg.get("bool_true", 0x01)
        self.frag_round = cfg.get("frag_round", "element")
        self.wall_clock = cfg.get("wall_clock", 1_600_000_000_000_000)
        self.svc_log = []                              # executed tag services
        self.read_xfers = {}                           # (path bytes, count) -> bytes returned so far
        self.empty_served = set()
        self.write_xfers = []                          # fragmented write fragments in order
        self.by_instance = {}
        for t in self.project.data["tags"]:
            if t.get("scope") is None:
                self.by_instance[t["instance"]] = t

    def load_project(self, project, memory):
        """a program download while clients are connected: the controller now runs another project"""
        self.project = project if isinstance(project, Project) else Project(project)
        self.memory = {k: bytearray(v) for k, v in memory.items()}
        self.by_instance = {t["instance"]: t for t in self.project.data["tags"] if t.get("scope") is None}
        self.read_xfers, self.write_xfers, self.empty_served = {}, [], set()

    # -- memory ---------------------------------------------------------------------------------
    @staticmethod
    def mkey(tag):
        return f"{tag.get('scope') or ''}/{tag['name']}"

    def mem(self, tag):
        return self.memory[self.mkey(tag)]

    # -- routing --------------------------------------------------------------------------------
    def route_object(self, service, segs, data, transport, conn, entry):
        first = segs[0] if segs else None
        if first is None:
            return 0x04, [], b""
        if first[0] == "class" and len(segs) >= 2 and segs[1][0] == "instance":
            cls, inst = first[1], segs[1][1]
            if cls == 0x02 and inst == 1 and service == 0x0A:
                return self.multi_service(data, transport, conn, entry)
            if cls == 0x01 and inst == 1 and service == 0x01:
                # an unrouted (UCMM) request stops at the bridge, a routed or connected one reaches the controller
                return 0, [], encode_identity(self.bridge_identity if (self.bridge_identity and transport == "ucmm") else self.identity)
            if cls == 0x64 and inst == 1 and service == 0x01 and not self.micro800:
                nm = self.plc_name.encode("latin-1")
                return 0, [], struct.pack("<H", len(nm)) + nm
            if cls == 0x8B and inst == 1:
                return self.wall_clock_service(service, data)
            if cls == 0x6C:
                return self.template_service(service, inst, data, conn)
            if cls == 0x6B and service == 0x55:
                return self.symbol_list(None, inst, data, conn)
            if cls == 0x6B:
                return self.tag_service(service, segs, data, conn, entry)
            return 0x05, [], b""
        if first[0] == "symbol":
            name = first[1].decode("latin-1")
            if name.startswith("Program:") and len(segs) >= 3 and segs[1][:2] == ("class", 0x6B) and segs[2][0] == "instance" and service == 0x55:
                return self.symbol_list(name[8:], segs[2][1], data, conn)
            return self.tag_service(service, segs, data, conn, entry)
        return 0x04, [], b""

    # -- small objects ----------------------------------------------------------------------------
    def wall_clock_service(self, service, data):
        if service == 0x03:
            if data != b"\x01\x00\x0b\x00":
                return 0x09, [], b""
            return 0, [], struct.pack("<HHHQ", 1, 0x0B, 0, self.wall_clock)
        if service == 0x04:
            if len(data) != 12 or data[:4] != b"\x01\x00\x06\x00":
                return 0x09, [], b""
            self.wall_clock = struct.unpack_from("<Q", data, 4)[0]
            return 0, [], struct.pack("<HHH", 1, 6, 0)
        return 0x08, [], b""

    def reply_capacity(self, conn, header_len, limited=True):
        """data bytes the target may put into one reply (after the type header)"""
        cap = 4000 if conn is None else conn["size"]
        cap -= 2 + 4 + header_len  # sequence count, reply header, type header
        if limited and self.read_cap is not None:
            cap = min(cap, self.read_cap)
        return max(cap, 1)

    def template_service(self, service, inst, data, conn):
        u = self.project.udt_by_id.get(inst)
        if u is None:
            return 0x05, [], b""
        if service == 0x03:
            if len(data) < 2:
                return 0x13, [], b""
            n = struct.unpack_from("<H", data, 0)[0]
            if len(data) != 2 + 2 * n:
                return 0x13, [], b""
            attrs = self.project.template_attrs(u)
            out = struct.pack("<H", n)
            for i in range(n):
                a = struct.unpack_from("<H", data, 2 + 2 * i)[0]
                if a == 1:
                    out += struct.pack("<HHH", a, 0, attrs["structure_handle"])
                elif a == 2:
                    out += struct.pack("<HHH", a, 0, attrs["member_count"])
                elif a == 4:
                    out += struct.pack("<HHI", a, 0, attrs["object_definition_size"])
                elif a == 5:
                    out += struct.pack("<HHI", a, 0, attrs["structure_size"])
                else:
                    return 0x0A, [], b""
            return 0, [], out
        if service == 0x4C:
            if len(data) != 6:
                return 0x13, [], b""
            off, cnt = struct.unpack("<IH", data)
            blob = self.project.template_blob(u)
            if off > len(blob):
                return 0xFF, [0x2105], b""
            avail = blob[off:off + cnt]
            chunk = avail[:min(self.tmpl_frag, self.reply_capacity(conn, 0))]
            return (0x06 if len(chunk) < len(avail) else 0), [], chunk
        return 0x08, [], b""

    def symbols_in_scope(self, scope):
        """(instance, name, symbol_type, software_control, dims, access) sorted by instance"""
        p = self.project
        out = []
        for t in p.data["tags"]:
            if t.get("scope") != scope:
                continue
            dims = list(t["dims"]) + [0] * (3 - len(t["dims"]))
            sc = 0x0400_0000 if not t.get("alias") else 0
            sc |= t.get("sc_extra", 0)
            out.append((t["instance"], t["name"], p.symbol_type(t), sc, dims, t.get("access", 0)))
        if scope is None:
            for pr in p.data.get("programs", []):
                out.append((pr["instance"], "Program:" + pr["name"], 0x1068, 0, [0, 0, 0], 0))
        else:
            pr = p.programs.get(scope)
            if pr:
                for r in pr.get("routines", []):
                    out.append((r["instance"], "Routine:" + r["name"], 0x106D, 0, [0, 0, 0], 0))
        for x in p.data.get("extras", []):
            if x.get("scope") == scope:
                out.append((x["instance"], x["name"], x["symbol_type"], x.get("sc", 0), x.get("dims", [0, 0, 0]), x.get("access", 0)))
        out.sort(key=lambda r: r[0])
        return out

    def symbol_list(self, scope, start, data, conn):
        if scope is not None and scope not in self.project.programs:
            return 0x05, [], b""
        if len(data) < 2:
            return 0x13, [], b""
        n = struct.unpack_from("<H", data, 0)[0]
        if len(data) != 2 + 2 * n:
            return 0x13, [], b""
        attrs = [struct.unpack_from("<H", data, 2 + 2 * i)[0] for i in range(n)]
        for a in attrs:
            if a not in (1, 2, 3, 5, 6, 8, 10) or (a == 10 and self.fw_major < 18):
                return 0x0A, [], b""
        syms = [s for s in self.symbols_in_scope(scope) if s[0] >= start]
        cap = min(self.page_size, self.reply_capacity(conn, 0))
        out = b""
        more = False
        for k, (inst, name, styp, sc, dims, access) in enumerate(syms):
            rec = struct.pack("<I", inst)
            for a in attrs:
                if a == 1:
                    nb = name.encode("latin-1")
                    rec += struct.pack("<H", len(nb)) + nb
                elif a == 2:
                    rec += struct.pack("<H", styp)
                elif a == 3:
                    rec += struct.pack("<I", (0x1000 + inst * 8) & 0xFFFFFFFF)
                elif a == 5:
                    rec += struct.pack("<I", (0x8000 + inst * 4) & 0xFFFFFFFF)
                elif a == 6:
                    rec += struct.pack("<I", sc)
                elif a == 8:
                    rec += struct.pack("<III", *dims)
                elif a == 10:
                    rec += bytes([access])
            if out and len(out) + len(rec) > cap:
                more = True
                break
            out += rec
        return (0x06 if more else 0), [], out

    # -- tag services -------------------------------------------------------------------------------
    def resolve(self, segs):
        """wire path -> Loc (raises LocateError)"""
        p = self.project
        i = 0
        scope = None
        if segs[0][0] == "symbol":
            name = segs[0][1].decode("latin-1")
            i = 1
            if name.startswith("Program:"):
                scope = name[8:]
                if scope not in p.programs:
                    raise LocateError(0x05, None, "unknown program")
                if i >= len(segs) or segs[i][0] != "symbol":
                    raise LocateError(0x04, None, "program scope without a tag name")
                name = segs[i][1].decode("latin-1")
                i += 1
            tag = p.tags.get((scope, name))
            if tag is None:
                raise LocateError(0x05, None, f"unknown tag {name}")
        else:
            if not self.cfg.get("instance_addressing", self.fw_major >= 21 and not self.micro800):
                raise LocateError(0x05, None, "symbol instance addressing not supported by this firmware")
            tag = self.by_instance.get(segs[1][1])
            if tag is None:
                raise LocateError(0x05, None, f"unknown symbol instance {segs[1][1]}")
            i = 2
        idx = []
        while i < len(segs) and segs[i][0] == "member":
            idx.append(segs[i][1])
            i += 1
        loc = p.locate_tag(tag, idx)
        while i < len(segs):
            if segs[i][0] != "symbol":
                raise LocateError(0x04, None, f"unexpected segment {segs[i]}")
            mname = segs[i][1].decode("latin-1")
            i += 1
            idx = []
            while i < len(segs) and segs[i][0] == "member":
                idx.append(segs[i][1])
                i += 1
            loc = p.locate_member(loc, mname, idx)
        return loc

    def tag_service(self, service, segs, data, conn, entry):
        n = self.tag_requests
        self.tag_requests += 1
        rec = {"service": service, "n": n, "executed": False, "path": entry["rawpath"] if entry else b""}
        self.svc_log.append(rec)
        if service not in (0x4C, 0x52, 0x4D, 0x53, 0x4E):
            rec["status"] = 0x08
            return 0x08, [], b""
        try:
            loc = self.resolve(segs)
        except LocateError as e:
            rec["status"] = e.status
            rec["error"] = str(e)
            return e.status, ([e.ext] if e.ext else []), b""
        rec["tag"] = self.mkey(loc.tag)
        for rule in self.forced:
            w = rule.get("when", {})
            if w.get("tag") == loc.tag["name"] or w.get("nth") == n:
                rec["status"] = rule["status"]
                rec["forced"] = True
                return rule["status"], rule.get("ext", []), rule.get("data", b"")
        try:
            if service == 0x4C:
                st = self.read_tag(loc, data, conn, rec, False)
            elif service == 0x52:
                st = self.read_tag(loc, data, conn, rec, True)
            elif service == 0x4D:
                st = self.write_tag(loc, data, rec, False)
            elif service == 0x53:
                st = self.write_tag(loc, data, rec, True)
            else:
                st = self.rmw(loc, data, rec)
        except LocateError as e:
            st = (e.status, ([e.ext] if e.ext else []), b"")
            rec["error"] = str(e)
        rec["status"] = st[0]
        return st

    def read_tag(self, loc, data, conn, rec, fragmented):
        p = self.project
        need = 6 if fragmented else 2
        if len(data) != need:
            raise LocateError(0x13 if len(data) < need else 0x15, None, f"read request data {len(data)} bytes")
        count = struct.unpack_from("<H", data, 0)[0]
        offset = struct.unpack_from("<I", data, 2)[0] if fragmented else 0
        if count == 0 or count > loc.remaining:
            raise LocateError(0xFF, 0x2105, f"count {count} beyond the {loc.remaining} elements available")
        header = p.type_header(loc.type)
        mem = self.mem(loc.tag)
        if loc.bit is not None:
            val = bytes([self.bool_true if mem[loc.offset] >> loc.bit & 1 else 0])
            rec.update(executed=True, offset=loc.offset, length=1, count=1, bit=loc.bit)
            return 0, [], header + val
        es = p.elem_size(loc.type)
        total = count * es
        if offset > total or (offset == total and total > 0 and fragmented and offset != 0):
            raise LocateError(0xFF, 0x2105, f"fragment offset {offset} beyond {total}")
        # a plain Read Tag returns everything that fits the connection; only the fragmented service
        # may legitimately return any shorter fragment the target likes
        cap = self.reply_capacity(conn, len(header), limited=fragmented)
        remaining = total - offset
        chunk = min(cap, remaining)
        if chunk < remaining and not (fragmented and self.frag_round == "any"):   # "any": a fragment may end inside an element
            unit = es if (self.frag_round == "element" or loc.type in ATOMIC) else 4
            if chunk >= unit:
                chunk -= chunk % unit
            elif not fragmented:
                chunk = 0
        key = (rec["path"], count)
        if fragmented and offset == 0 and remaining > 0 and self.cfg.get("empty_first_fragment") and key not in self.empty_served:
            # a busy target may answer the first fragment request with "partial transfer" and no data yet
            self.empty_served.add(key)
            chunk = 0
        if fragmented:
            if offset == 0:
                self.read_xfers[key] = 0
            elif self.read_xfers.get(key) != offset:
                self.audit("C04", "read.frag.offset", f"follow-up fragment asks for offset {offset}, bytes returned so far {self.read_xfers.get(key)}")
            self.read_xfers[key] = offset + chunk
        start = loc.offset + offset
        out = bytes(mem[start:start + chunk])
        partial = chunk < remaining
        rec.update(executed=True, offset=start, length=chunk, count=count, frag_offset=offset if fragmented else None, partial=partial,
                   total=total)
        return (0x06 if partial else 0), [], header + out

    def _check_type(self, loc, data):
        p = self.project
        header = p.type_header(loc.type)
        if data[:len(header)] != header:
            raise LocateError(0xFF, 0x2107, f"type {data[:4].hex()} does not match {loc.type} ({header.hex()})")
        return len(header)

    def write_tag(self, loc, data, rec, fragmented):
        p = self.project
        if len(data) < 4:
            raise LocateError(0x13, None, "short write request")
        pos = self._check_type(loc, data)
        if len(data) < pos + 2 + (4 if fragmented else 0):
            raise LocateError(0x13, None, "short write request")
        count = struct.unpack_from("<H", data, pos)[0]
        pos += 2
        offset = 0
        if fragmented:
            offset = struct.unpack_from("<I", data, pos)[0]
            pos += 4
        payload = data[pos:]
        if count == 0 or count > loc.remaining:
            raise LocateError(0xFF, 0x2105, f"count {count} beyond the {loc.remaining} elements available")
        mem = self.mem(loc.tag)
        if loc.bit is not None:
            if count != 1 or len(payload) != 1:
                raise LocateError(0x13 if len(payload) < 1 else 0x15, None, "BOOL write needs one byte")
            if payload[0]:
                mem[loc.offset] |= 1 << loc.bit
            else:
                mem[loc.offset] &= ~(1 << loc.bit) & 0xFF
            rec.update(executed=True, offset=loc.offset, length=1, count=1, bit=loc.bit, write=True)
            return 0, [], b""
        es = p.elem_size(loc.type)
        total = count * es
        if fragmented:
            if offset + len(payload) > total:
                raise LocateError(0x15, None, f"fragment {offset}+{len(payload)} beyond {total}")
            if len(payload) == 0:
                raise LocateError(0x13, None, "empty fragment")
        elif len(payload) != total:
            raise LocateError(0x13 if len(payload) < total else 0x15, None, f"{len(payload)} data bytes for {count} x {es}")
        start = loc.offset + offset
        mem[start:start + len(payload)] = payload
        rec.update(executed=True, offset=start, length=len(payload), count=count, frag_offset=offset if fragmented else None,
                   write=True, total=total, base=loc.offset)
        if fragmented:
            self.write_xfers.append((rec["path"], count, offset, len(payload), total))
        return 0, [], b""

    def rmw(self, loc, data, rec):
        if loc.bit is not None or loc.type not in INT_BITS and loc.type != "DWORD":
            raise LocateError(0xFF, 0x2107, f"read-modify-write on {loc.type}")
        width = 4 if loc.type == "DWORD" else INT_BITS[loc.type] // 8
        if len(data) < 2:
            raise LocateError(0x13, None, "short")
        size = struct.unpack_from("<H", data, 0)[0]
        if size != width:
            raise LocateError(0x03, None, f"mask size {size} for a {width}-byte {loc.type}")
        if len(data) != 2 + 2 * size:
            raise LocateError(0x13 if len(data) < 2 + 2 * size else 0x15, None,
                              f"read-modify-write data is {len(data)} bytes, expected {2 + 2 * size}")
        om = int.from_bytes(data[2:2 + size], "little")
        am = int.from_bytes(data[2 + size:2 + 2 * size], "little")
        mem = self.mem(loc.tag)
        old = int.from_bytes(mem[loc.offset:loc.offset + width], "little")
        new = (old | om) & am
        mem[loc.offset:loc.offset + width] = new.to_bytes(width, "little")
        rec.update(executed=True, offset=loc.offset, length=width, count=1, write=True, rmw=(om, am))
        return 0, [], b""

    def multi_service(self, data, transport, conn, entry):
        if self.micro800:
            return 0x08, [], b""
        if len(data) < 2:
            return 0x13, [], b""
        n = struct.unpack_from("<H", data, 0)[0]
        if n == 0 or len(data) < 2 + 2 * n:
            self.audit("C11", "multi.offsets", f"{n} services, {len(data)} bytes")
            return 0x13, [], b""
        offs = [struct.unpack_from("<H", data, 2 + 2 * i)[0] for i in range(n)]
        if offs[0] != 2 + 2 * n or any(b <= a for a, b in zip(offs, offs[1:])) or offs[-1] >= len(data):
            self.audit("C11", "multi.offsets", f"offsets {offs} do not tile a body of {len(data)} bytes")
            return 0x13, [], b""
        replies = []
        any_err = False
        for i, off in enumerate(offs):
            end = offs[i + 1] if i + 1 < n else len(data)
            msg = data[off:end]
            if msg and msg[0] == 0x0A:
                r = self.cip_reply(0x0A, 0x08)
            else:
                r = self._dispatch_cip(msg, transport, conn)
            if r[2] != 0:
                any_err = True
            replies.append(r)
        # reply size check (what this multi-service request solicits)
        body_len = 2 + 2 * n + sum(len(r) for r in replies)
        room = self.cfg.get("multi_room")
        if conn is not None and room is not None and room < conn["size"] and 2 + 4 + body_len > room and 2 + 4 + body_len <= conn["size"]:
            # a target (or a bridge on the way) with less room than the connection size: read replies that do not fit are answered
            # with "insufficient packet space"; the driver did nothing wrong, and every other member must be unaffected
            fitted, used = [], 2 + 4 + 2 + 2 * n
            for r in replies:
                if used + len(r) > room and r[2] == 0 and r[0] in (0xCC, 0xD2):
                    r = r[:2] + bytes([0x06, 0])
                    any_err = True
                    self.room_refused += 1
                used += len(r)
                fitted.append(r)
            replies = fitted
            out = struct.pack("<H", n)
            pos = 2 + 2 * n
            for r in replies:
                out += struct.pack("<H", pos)
                pos += len(r)
            out += b"".join(replies)
            return (self.cfg.get("multi_partial_status", 0x1E) if any_err else 0), [], out
        if conn is not None and 2 + 4 + body_len > conn["size"]:
            self.audit("C04", "multi.reply.too-large", f"multi-service reply needs {2 + 4 + body_len} bytes > negotiated {conn['size']}")
            # members that do not fit are answered with status 0x06 and no data
            fitted = []
            used = 2 + 4 + 2 + 2 * n
            for r in replies:
                if used + len(r) > conn["size"]:
                    r = r[:2] + bytes([0x06, 0])
                    any_err = True
                used += len(r)
                fitted.append(r)
            replies = fitted
        out = struct.pack("<H", n)
        pos = 2 + 2 * n
        for r in replies:
            out += struct.pack("<H", pos)
            pos += len(r)
        out += b"".join(replies)
        return (0x1E if any_err else 0), [], out

    # -- end-of-call audit of fragmented writes --------------------------------------------------
    def audit_write_transfers(self):
        """fragmented-write fragments of each transfer must start at 0, be contiguous and end at the total"""
        xfers = {}
        for path, count, off, ln, total in self.write_xfers:
            xfers.setdefault((path, count, total), []).append((off, ln))
        for (path, count, total), frs in xfers.items():
            pos = 0
            for off, ln in frs:
                if off == 0 and pos == total:
                    pos = 0  # a second complete transfer of the same request (duplicates in one call)
                if off != pos:
                    self.audit("C04", "write.frag.tiling", f"fragments {frs} of a {total}-byte value are not contiguous from 0")
                    break
                pos += ln
            else:
                if pos != total:
                    self.audit("C04", "write.frag.incomplete", f"fragments {frs} cover {pos} of {total} bytes")
        self.write_xfers = []
