#!/venv/bin/python
"""Evaluate a seeded breaking change.

  tools/seed_eval.py <src dir with patch.diff, demo.py, meta.json> <seed id> [--props C01,C04] [--tier quick]

1. confirms the change in a scratch copy of /repo's HEAD (outside /repo and /verif): patch applies, package imports, the
   repository's test suite still passes, the demonstration passes without the change and fails with it;
2. runs the named checks of /verif against the patched copy (VERIF_REPO / VERIF_OUT point into the scratch copy);
3. stores patch.diff, demo.py and meta.json (with what was run and what detected it) under /verif/seeded/<seed id>/.
The scratch copy is removed afterwards.  /repo is never modified.
"""
import argparse
import json
import os
import re
import shutil
import subprocess
import sys
import tempfile
import time

HERE = os.path.dirname(os.path.dirname(os.path.abspath(__file__)))
PY = "/venv/bin/python"


def sh(cmd, cwd=None, env=None, timeout=3600):
    r = subprocess.run(cmd, shell=True, cwd=cwd, env=env, capture_output=True, text=True, timeout=timeout)
    return r.returncode, r.stdout, r.stderr


def main():
    ap = argparse.ArgumentParser()
    ap.add_argument("src")
    ap.add_argument("seed_id")
    ap.add_argument("--props")
    ap.add_argument("--tier", default="quick")
    ap.add_argument("--workers", default="16")
    a = ap.parse_args()
    src = os.path.abspath(a.src)
    meta = json.load(open(os.path.join(src, "meta.json")))
    prop = meta["property"]
    props = a.props.split(",") if a.props else [prop]
    tmp = tempfile.mkdtemp(prefix="vfseed_")
    out = {"steps": []}
    try:
        clean = os.path.join(tmp, "clean")
        patched = os.path.join(tmp, "patched")
        os.makedirs(clean)
        rc, _, err = sh(f"git -C /repo archive HEAD | tar -x -C {clean}")
        assert rc == 0, err
        shutil.copytree(clean, patched)
        rc, o, err = sh(f"git init -q . && git apply --whitespace=nowarn {src}/patch.diff", cwd=patched)
        out["patch_applies"] = rc == 0
        if rc != 0:
            print("PATCH DOES NOT APPLY:", err[:500])
            return 2
        rc, o, err = sh(f"{PY} -m pytest -q -p no:cacheprovider --timeout=900 --continue-on-collection-errors 2>&1 | tail -1", cwd=patched)
        out["tests_with_change"] = o.strip()
        demo = open(os.path.join(src, "demo.py")).read().replace(src, "{ROOT}")
        if src.startswith(os.path.join(HERE, "seeded")):   # re-evaluation of a stored seed: its demo was rewritten to /repo
            demo = demo.replace("/repo", "{ROOT}")
        for name, root in (("clean", clean), ("patched", patched)):
            open(os.path.join(root, "demo.py"), "w").write(demo.replace("{ROOT}", root))
        rc_c, o_c, e_c = sh(f"PYTHONPATH={clean} {PY} demo.py", cwd=clean, timeout=600)
        rc_p, o_p, e_p = sh(f"PYTHONPATH={patched} {PY} demo.py", cwd=patched, timeout=600)
        out["demo_without_change_rc"] = rc_c
        out["demo_with_change_rc"] = rc_p
        out["demo_with_change_tail"] = (o_p + e_p).strip()[-400:]
        ok = "368 passed" in out["tests_with_change"] and rc_c == 0 and rc_p != 0
        out["confirmed"] = ok
        print(f"[{a.seed_id}] tests: {out['tests_with_change']} | demo clean rc={rc_c} patched rc={rc_p} | confirmed={ok}")
        det = {}
        for p in props:
            env = dict(os.environ, VERIF_REPO=patched, VERIF_OUT=os.path.join(tmp, "out"), VERIF_WORKERS=a.workers)
            t0 = time.time()
            r = subprocess.run([os.path.join(HERE, "check"), p, "--tier", a.tier], capture_output=True, text=True, env=env)
            buckets = [l.strip() for l in r.stdout.splitlines() if l.strip().startswith("bucket=")]
            det[p] = {"exit": r.returncode, "seconds": round(time.time() - t0), "buckets": [b[:260] for b in buckets[:4]],
                      "cmd": f"VERIF_REPO=<patched copy> ./check {p} --tier {a.tier}"}
            print(f"[{a.seed_id}] check {p}: exit {r.returncode} in {det[p]['seconds']}s {buckets[:1]}")
            if r.returncode == 2:
                print(r.stderr[-600:])
        out["detected_by"] = det
        dst = os.path.join(HERE, "seeded", a.seed_id)
        os.makedirs(dst, exist_ok=True)
        if os.path.abspath(src) != os.path.abspath(dst):
            shutil.copy(os.path.join(src, "patch.diff"), os.path.join(dst, "patch.diff"))
        open(os.path.join(dst, "demo.py"), "w").write(demo.replace("{ROOT}", "/repo"))
        meta2 = dict(meta)
        meta2["demo_cmd"] = "git -C /repo apply /verif/seeded/%s/patch.diff && (cd /repo && PYTHONPATH=/repo /venv/bin/python /verif/seeded/%s/demo.py); git -C /repo checkout -- ." % (a.seed_id, a.seed_id)
        meta2["verification"] = out
        meta2["what_was_run"] = ("scratch copy of /repo HEAD (git archive) + patch.diff: repository test suite, demo with and without the change, then the "
                                 "listed /verif checks with VERIF_REPO pointing at the patched copy")
        json.dump(meta2, open(os.path.join(dst, "meta.json"), "w"), indent=1)
        return 0 if ok else 1
    finally:
        shutil.rmtree(tmp, ignore_errors=True)


if __name__ == "__main__":
    sys.exit(main())
