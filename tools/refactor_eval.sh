#!/bin/bash
# Run every quick check against a behaviour-preserving variant of the library (a scratch copy / worktree outside /repo and /verif).
#   tools/refactor_eval.sh <dir with a pycomm3 package> [workers] [ids...]
# Every check is expected to exit 0 there: an exit 1 is a false alarm of the machinery (unless the variant really changed behaviour),
# an exit 2 means the harness depends on an internal name the variant renamed.
dir=$(readlink -f "$1"); workers=${2:-16}; shift 2 2>/dev/null
ids=${@:-C01 C02 C03 C04 C05 C06 C07 C08 C09 C10 C11 C12 C13 C14 C15 C16 C17 C18 C19}
out=$(mktemp -d /tmp/vfrefac_XXXXXX)
here=$(dirname "$(dirname "$(readlink -f "$0")")")
for p in $ids; do
  VERIF_REPO=$dir VERIF_OUT=$out VERIF_WORKERS=$workers "$here/check" $p --tier quick > $out/$p.log 2>&1
  rc=$?
  echo "$p exit=$rc $(grep -E '^\[C' $out/$p.log | tail -1 | cut -c1-120)"
  if [ $rc -ne 0 ]; then grep -E "bucket=|HARNESS|Error" $out/$p.log | head -5 | cut -c1-400; fi
done
rm -rf "$out"
