#!/venv/bin/python
"""Rewrites the table of seeded changes in DESIGN.md (section 7.5) from seeded/*/meta.json."""
import glob
import json
import os
import re

HERE = os.path.dirname(os.path.dirname(os.path.abspath(__file__)))
HEAD = "| id | change | needs to manifest | caught by (first bucket) |\n|---|---|---|---|\n"


def rows():
    out = []
    for d in sorted(glob.glob(os.path.join(HERE, "seeded", "*"))):
        m = json.load(open(os.path.join(d, "meta.json")))
        det = m.get("verification", {}).get("detected_by", {})
        caught = []
        for p, x in det.items():
            if x.get("exit") == 1:
                b = (x.get("buckets") or ["?"])[0].split(" ")[0].replace("bucket=", "")
                caught.append(f"{p}: `{b}`")
        cell = "; ".join(caught) or ("- (see note in meta.json)" if m.get("note") or m.get("not_detected_note") else "-")
        if m.get("final_tree_note"):
            if not caught:
                cell = "- (no longer breaks the property on the final tree, see final_tree_note in meta.json)"
            elif not m.get("verification", {}).get("confirmed", True):
                cell += " (demonstration predates a later repair, see final_tree_note in meta.json)"
        clean = lambda t: re.sub(r"\s+", " ", str(t)).replace("|", "/")
        out.append(f"| {os.path.basename(d)} | {clean(m.get('summary', ''))[:170]} | {clean(m.get('needs_to_manifest', ''))[:150]} | {cell} |\n")
    return out


def main():
    p = os.path.join(HERE, "DESIGN.md")
    s = open(p).read()
    a = s.index(HEAD)
    b = a + len(HEAD)
    # the table ends at the first line that does not start with "| C"
    lines = s[b:].split("\n")
    n = 0
    while n < len(lines) and lines[n].startswith("| C"):
        n += 1
    rest = "\n".join(lines[n:])
    s = s[:b] + "".join(rows()) + rest
    open(p, "w").write(s)
    print(f"{len(rows())} rows written")


if __name__ == "__main__":
    main()
