#!/bin/bash
# Run every quick check against a stored behaviour-preserving variant of the library (variants/<name>/patch.diff, relative to /repo HEAD).
#   tools/variant_eval.sh <name> [workers] [ids...]
# A scratch copy of /repo HEAD is made outside /repo and /verif, patched, checked and removed.  Every check is expected to exit 0.
here=$(dirname "$(dirname "$(readlink -f "$0")")")
name=$1; workers=${2:-16}; shift 2 2>/dev/null
tmp=$(mktemp -d /tmp/vfvariant_XXXXXX)
git -C /repo archive HEAD | tar -x -C "$tmp"
base=$(cat "$here/variants/$name/BASE" 2>/dev/null)
(cd "$tmp" && patch -p0 -s < "$here/variants/$name/patch.diff") || { echo "variant $name does not apply to /repo HEAD (it was written against /repo $base: later repairs touch the same lines; the checks of today would report the defects repaired since then on that older tree, so it cannot be replayed there either)"; rm -rf "$tmp"; exit 2; }
"$here/tools/refactor_eval.sh" "$tmp" "$workers" "$@"
rm -rf "$tmp"
