#!/bin/bash
# Line/branch coverage of /repo/pycomm3 by the quick checks (tooling, not a check): tools/coverage.sh [ids...]
here=$(dirname "$(dirname "$(readlink -f "$0")")")
ids=${@:-C01 C02 C03 C04 C05 C06 C07 C08 C09 C10 C11 C12 C13 C14 C15 C16 C17 C18 C19}
out=$(mktemp -d /tmp/vfcov_XXXXXX)
for p in $ids; do
  VERIF_COV=$out VERIF_OUT=$out/out "$here/check" $p --tier quick 2>&1 | grep -E "^\[C|VIOL|HARNESS" | cut -c1-120
done
cd $out && /venv/bin/python -m coverage combine -q --data-file=$out/all $out/cov.* >/dev/null 2>&1
/venv/bin/python -m coverage report --data-file=$out/all -m --skip-empty 2>&1 | tail -40
echo "data: $out/all"
