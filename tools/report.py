#!/venv/bin/python
"""Prints markdown tables for DESIGN.md section 7 from seeded/*/meta.json and mutations/results/*.txt."""
import glob
import json
import os
import re

HERE = os.path.dirname(os.path.dirname(os.path.abspath(__file__)))


def seeded():
    rows = []
    for d in sorted(glob.glob(os.path.join(HERE, "seeded", "*"))):
        m = json.load(open(os.path.join(d, "meta.json")))
        v = m.get("verification", {})
        det = v.get("detected_by", {})
        caught = [f"{p} ({(x['buckets'] or ['?'])[0].split(' ')[0].replace('bucket=', '')})" for p, x in det.items() if x["exit"] == 1]
        missed = [p for p, x in det.items() if x["exit"] != 1]
        rows.append(f"| {os.path.basename(d)} | {m['summary'][:150]} | {m['needs_to_manifest'][:170]} | {'; '.join(caught) or '-'} | {', '.join(missed) or '-'} |")
    print("| id | change | needs | caught by (first bucket) | not flagged by |")
    print("|---|---|---|---|---|")
    print("\n".join(rows))


def mutations():
    res = {}
    for f in sorted(glob.glob(os.path.join(HERE, "mutations", "results", "*.txt"))):
        for line in open(f):
            m = re.match(r"(\S+)\s+(C\d+)\s+(killed|SURVIVED|HARNESS-ERROR|APPLY-ERROR\S*|IMPORT-ERROR)", line)
            if m:
                res[(m.group(1), m.group(2))] = m.group(3)
    n = len({k[0] for k in res})
    killed = {k[0] for k, v in res.items() if v == "killed"}
    surv = sorted({k[0] for k in res} - killed)
    print(f"{n} mutations run, {len(killed)} killed by at least one of their target checks; not killed: {surv}")


if __name__ == "__main__":
    seeded()
    print()
    mutations()
