#!/venv/bin/python
"""Mutation sensitivity: apply hand-made breaking changes to a scratch copy of pycomm3 and run checks.

  tools/mut.py run [--only ID[,ID]] [--prop C19] [--tier quick] [-j 4]

Mutations live in mutations/*.json: [{"id","file","old","new","props":[...],"count":1,"note"}].
Each mutation is applied to a copy of /repo/pycomm3 under a temp dir (VERIF_REPO), the named checks
run with VERIF_OUT pointing into the temp dir, and the temp dir is removed afterwards.  /repo is never touched.
"""
import argparse
import glob
import json
import os
import shutil
import subprocess
import sys
import tempfile
import time
from concurrent.futures import ThreadPoolExecutor

HERE = os.path.dirname(os.path.dirname(os.path.abspath(__file__)))


def load():
    muts = []
    for f in sorted(glob.glob(os.path.join(HERE, "mutations", "*.json"))):
        muts += json.load(open(f))
    return muts


def run_one(m, props, tier, workers):
    tmp = tempfile.mkdtemp(prefix="vfmut_")
    try:
        shutil.copytree("/repo/pycomm3", os.path.join(tmp, "pycomm3"))
        path = os.path.join(tmp, m["file"])
        src = open(path).read()
        cnt = src.count(m["old"])
        if cnt != m.get("count", 1):
            return m["id"], {p: f"APPLY-ERROR({cnt} matches)" for p in props}
        open(path, "w").write(src.replace(m["old"], m["new"]))
        # the mutant must still import
        r = subprocess.run(["/venv/bin/python", "-c", "import sys; sys.path.insert(0, %r); import pycomm3" % tmp],
                           capture_output=True, text=True)
        if r.returncode:
            return m["id"], {p: "IMPORT-ERROR" for p in props}
        out = {}
        for p in props:
            env = dict(os.environ, VERIF_REPO=tmp, VERIF_OUT=os.path.join(tmp, "out"), VERIF_WORKERS=str(workers))
            t0 = time.time()
            r = subprocess.run([os.path.join(HERE, "check"), p, "--tier", tier], capture_output=True, text=True, env=env)
            dt = time.time() - t0
            buckets = [l.strip() for l in r.stdout.splitlines() if l.strip().startswith("bucket=")]
            tag = {0: "SURVIVED", 1: "killed", 2: "HARNESS-ERROR"}.get(r.returncode, f"rc={r.returncode}")
            out[p] = f"{tag} {dt:.0f}s" + (f" [{buckets[0][:110]}]" if buckets else "")
            if r.returncode == 2:
                out[p] += " " + r.stderr.strip().splitlines()[-1][:200] if r.stderr.strip() else ""
        return m["id"], out
    finally:
        shutil.rmtree(tmp, ignore_errors=True)


def main():
    ap = argparse.ArgumentParser()
    ap.add_argument("cmd", choices=["run", "list"])
    ap.add_argument("--only")
    ap.add_argument("--prop")
    ap.add_argument("--tier", default="quick")
    ap.add_argument("-j", type=int, default=4)
    a = ap.parse_args()
    muts = load()
    if a.only:
        ids = set(a.only.split(","))
        muts = [m for m in muts if m["id"] in ids]
    if a.prop:
        muts = [m for m in muts if a.prop in m["props"]]
    if a.cmd == "list":
        for m in muts:
            print(m["id"], m["props"], m.get("note", ""))
        return
    workers = max(2, 16 // a.j)
    with ThreadPoolExecutor(a.j) as ex:
        futs = [ex.submit(run_one, m, [a.prop] if a.prop else m["props"], a.tier, workers) for m in muts]
        surv = 0
        for f in futs:
            mid, out = f.result()
            for p, res in out.items():
                print(f"{mid:40s} {p} {res}", flush=True)
                if not res.startswith("killed"):
                    surv += 1
    print(f"{len(muts)} mutations, {surv} not killed")


if __name__ == "__main__":
    main()
