#!/venv/bin/python
"""Regenerates MANIFEST.json from the property modules present under vf/props."""
import importlib
import json
import os
import sys

HERE = os.path.dirname(os.path.dirname(os.path.abspath(__file__)))
sys.path.insert(0, HERE)
sys.path.insert(0, "/repo")

ALL = ["C%02d" % i for i in range(1, 20)]
BASELINE = ("cd /repo && /venv/bin/python -m pytest -ra -q -p no:cacheprovider --timeout=900 "
            "--continue-on-collection-errors")


def main():
    checks, na = [], []
    for pid in ALL:
        path = os.path.join(HERE, "vf", "props", pid.lower() + ".py")
        if not os.path.exists(path):
            na.append({"property_id": pid, "reason": "check not built yet (work in progress; see DESIGN.md section 3)"})
            continue
        mod = importlib.import_module(f"vf.props.{pid.lower()}")
        checks.append({
            "property_id": pid,
            "quick_cmd": f"./check {pid} --tier quick",
            "thorough_cmd": f"./check {pid} --tier thorough",
            "evidence_file": f"/verif/evidence/{pid}.json",
            "replay_cmd_template": f"./check {pid} --replay {{path}}",
            "engine": "vf",
            "level_claimed": {
                "category": mod.LEVEL,
                "text": mod.LEVEL_TEXT if hasattr(mod, "LEVEL_TEXT") else mod.RULE,
                "design_ref": f"DESIGN.md section 3, {pid}",
            },
            "level_note": "; ".join(mod.ASSUMPTIONS),
            "technique": mod.TECHNIQUE,
        })
    man = {
        "version": 1,
        "setup_cmd": "./setup.sh",
        "hooks": {
            "guard": "PYCOMM3_VERIF",
            "enable": "none needed: all observation points are reachable from outside (pycomm3.cip_driver.Socket "
                      "and pycomm3.socket_.socket are replaced by fakes inside the check process)",
            "baseline_off_cmd": BASELINE,
            "source_commits": [],
            "add_only": True,
        },
        "engines": [{
            "name": "vf",
            "path": "/verif/vf",
            "serves_properties": [c["property_id"] for c in checks],
            "kind_free_text": "Hypothesis property-based testing + exhaustive enumeration + atheris fuzzing against an "
                              "independent reference EtherNet/IP/CIP/Logix/PCCC target and reference codecs",
        }],
        "checks": checks,
        "not_applicable": na,
        "notes": "All checks import pycomm3 from /repo's working tree (asserted at start). VERIF_SEED selects the "
                 "random slice; PYTHONHASHSEED is pinned to 0 by ./check. Exit 2 = harness error.",
    }
    with open(os.path.join(HERE, "MANIFEST.json"), "w") as fh:
        json.dump(man, fh, indent=1)
        fh.write("\n")
    print("claimed:", [c["property_id"] for c in checks])


if __name__ == "__main__":
    main()
